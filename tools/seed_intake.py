#!/usr/bin/env python3
"""seed_intake.py <worktree dir> <property> <name> [checks...]
Takes a sub-agent's seeded change (SEED_PATCH.diff, seed_demo_test.go, SEED_NOTES.md),
confirms in a fresh scratch worktree that (1) it applies and builds, (2) the
repository's suite still passes with it, (3) the demonstration fails with it and
passes without it, then stores it under /verif/seeded/<name>/ and runs the listed
quick checks against it."""
import json, os, shutil, subprocess, sys, glob
V = os.path.dirname(os.path.dirname(os.path.abspath(__file__)))
ENV = dict(os.environ, GOFLAGS="-mod=mod", GOPROXY="off", GOSUMDB="off", GOTOOLCHAIN="local")
def sh(cmd, cwd=None, env=None):
    p = subprocess.run(cmd, cwd=cwd, env=env or ENV, shell=isinstance(cmd, str), capture_output=True, text=True)
    return p.returncode, p.stdout + p.stderr
src, prop, name = sys.argv[1], sys.argv[2], sys.argv[3]
checks = sys.argv[4:] or [prop]
patch = os.path.join(src, "SEED_PATCH.diff")
demos = [p for p in glob.glob(os.path.join(src, "**", "seed_demo*"), recursive=True)]
assert os.path.exists(patch), "no SEED_PATCH.diff"
wt = "/tmp/verif-mut/intake-" + name
sh(["git", "-C", "/repo", "worktree", "remove", "--force", wt]); shutil.rmtree(wt, ignore_errors=True)
os.makedirs("/tmp/verif-mut", exist_ok=True)
rc, o = sh(["git", "-C", "/repo", "worktree", "add", "--detach", "-q", wt, "HEAD"]); assert rc == 0, o
report = {"property": prop, "checks": checks}
try:
    # demo without the change
    rels = []
    for d in demos:
        rel = os.path.relpath(d, src); rels.append(rel)
        os.makedirs(os.path.dirname(os.path.join(wt, rel)) or wt, exist_ok=True)
        shutil.copy(d, os.path.join(wt, rel))
    pkgs = sorted(set("./" + (os.path.dirname(r) or ".") for r in rels)) or ["./..."]
    def demo():
        out = []
        allrc = 0
        for r in rels:
            if r.endswith(".sh"):
                rc, o = sh(["bash", r], cwd=wt)
            else:
                rc, o = sh("go test -vet=off -count=1 -run 'SeedDemo|Seed' " + "./" + (os.path.dirname(r) or "."), cwd=wt)
            allrc |= rc; out.append(o[-400:])
        return allrc, "\n".join(out)
    rc0, o0 = demo()
    report["demo_without_change"] = "pass" if rc0 == 0 else "FAIL: " + o0[-300:]
    rc, o = sh(["git", "apply", patch], cwd=wt); assert rc == 0, "patch does not apply: " + o
    rc, o = sh("go build ./... && go build -tags verif ./...", cwd=wt); report["build"] = "ok" if rc == 0 else o[-300:]
    rc1, o1 = demo()
    report["demo_with_change"] = "fails (as it should)" if rc1 != 0 else "PASSES (demo does not show the breakage)"
    for r in rels:
        os.remove(os.path.join(wt, r))
    rc, o = sh("go test -vet=off -count=1 ./...", cwd=wt)
    report["suite_with_change"] = "pass" if rc == 0 else "FAIL: " + o[-400:]
finally:
    sh(["git", "-C", "/repo", "worktree", "remove", "--force", wt]); shutil.rmtree(wt, ignore_errors=True)
dst = os.path.join(V, "seeded", name); os.makedirs(dst, exist_ok=True)
shutil.copy(patch, os.path.join(dst, "patch.diff"))
for d in demos:
    shutil.copy(d, os.path.join(dst, os.path.basename(d)))
notes = os.path.join(src, "SEED_NOTES.md")
if os.path.exists(notes):
    shutil.copy(notes, os.path.join(dst, "NOTES.md"))
meta = {"property": prop, "checks": checks, "origin": "independent sub-agent given only the property text and a scratch worktree", "demo_files": [os.path.relpath(d, src) for d in demos], "confirmed": report}
json.dump(meta, open(os.path.join(dst, "meta.json"), "w"), indent=1)
print(json.dumps(report, indent=1))
