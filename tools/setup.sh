#!/bin/bash
# setup: builds the harness offline from files on disk, runs the reference model's self-test and
# warms the build cache for the variants the checks use (race build for C09, GOARCH=386 and js/wasm for the checks with a second platform,
# fitgen for C19/C20).
set -e
cd "$(dirname "$0")/.."
export GOFLAGS=-mod=mod GOPROXY=off GOSUMDB=off GOTOOLCHAIN=local
./run selftest
REPO="${VERIF_REPO:-/repo}"
MOD=$(mktemp /tmp/verif-setup.XXXXXX.mod)
sed "s#=> /repo#=> $REPO#" harness/go.mod > "$MOD"; cp harness/go.sum "${MOD%.mod}.sum"
(cd harness && go build -race -tags verif -modfile="$MOD" -o /dev/null ./cmd/vcheck) || echo "setup: race build failed (C09 will report it)"
(cd harness && GOARCH=386 go build -tags verif -modfile="$MOD" -o /dev/null ./cmd/vcheck) || echo "setup: 386 build unavailable (C20 will skip that part)"
(cd harness && GOOS=js GOARCH=wasm go build -tags verif -modfile="$MOD" -o /dev/null ./cmd/c14wasm && GOOS=js GOARCH=wasm go build -tags verif -modfile="$MOD" -o /dev/null ./cmd/c17wasm) || echo "setup: js/wasm build unavailable (C14/C17 will skip that part)"
(cd "$REPO" && go build -o /dev/null ./cmd/fitgen && go build -tags verif -o /dev/null ./cmd/fitgen) || echo "setup: fitgen build failed (C19/C20 will report it)"
rm -f "$MOD" "${MOD%.mod}.sum"
echo "setup done"
