#!/bin/bash
# intake_round.sh <n>: take in every finished /tmp/seed/Cxx (SEED_PATCH.diff present) as seeded/Cxx-<n>, then run its check.
N=$1
cd /verif
for d in /tmp/seed/C??; do
  c=$(basename $d)
  [ -f $d/SEED_PATCH.diff ] || continue
  [ -f $d/SEED_NOTES.md ] || continue
  [ -d seeded/$c-$N ] && continue
  echo "== $c-$N"
  tools/seed_intake.py $d $c $c-$N 2>&1 | grep -v '"checks"\|^ *"C[0-9][0-9]"\|^ *\]' | tr -d '\n'; echo
  tools/mutants.py --dirs seeded --only $c-$N --no-suite 2>&1 | grep "seeded/"
done
