#!/usr/bin/env python3
"""dumpfit.py <replay.json|file.fit> — structural dump of a FIT stream."""
import json, sys
p = sys.argv[1]
if p.endswith('.json'):
    r = json.load(open(p)); b = bytes.fromhex(r['input_hex']); print(r['msg'][:500])
else:
    b = open(p, 'rb').read()
hs = b[0]; pos = hs; end = hs + int.from_bytes(b[4:8], 'little')
print('header', b[:hs].hex(), 'datasize', end - hs, 'len', len(b))
defs = {}
while pos < end:
    h = b[pos]
    if h & 0x80 or not h & 0x40:
        comp = bool(h & 0x80)
        l = (h >> 5) & 3 if comp else h & 15
        d = defs.get(l)
        if d is None:
            print(pos, 'data local', l, 'UNDEFINED'); break
        arch, g, fs, dev = d
        q = pos + 1; vals = []
        for (n, s, t) in fs:
            vals.append('%d:%s' % (n, b[q:q+s].hex())); q += s
        for (n, s, t) in dev:
            vals.append('dev%d:%s' % (n, b[q:q+s].hex())); q += s
        print(pos, ('cdata off=%d' % (h & 31)) if comp else 'data', 'local', l, 'global', g, ' '.join(vals))
        pos = q
    else:
        l = h & 15; arch = b[pos+2]; g = int.from_bytes(b[pos+3:pos+5], 'big' if arch else 'little'); n = b[pos+5]
        fs = [(b[pos+6+3*i], b[pos+7+3*i], b[pos+8+3*i]) for i in range(n)]
        p2 = pos + 6 + 3*n; dev = []
        if h & 0x20:
            nd = b[p2]; dev = [(b[p2+1+3*i], b[p2+2+3*i], b[p2+3+3*i]) for i in range(nd)]; p2 += 1 + 3*nd
        defs[l] = (arch, g, fs, dev)
        print(pos, 'def local', l, 'arch', arch, 'global', g, ['%d/%d/0x%02x' % f for f in fs], 'dev', dev if h & 0x20 else None)
        pos = p2
print('crc', b[end:end+2].hex(), 'trailing', len(b) - end - 2)
