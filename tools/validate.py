#!/usr/bin/env python3
import json, sys, glob, jsonschema
jsonschema.validate(json.load(open('/verif/MANIFEST.json')), json.load(open('/root/.vp/MANIFEST.schema.json')))
es = json.load(open('/root/.vp/EVIDENCE.schema.json'))
m = json.load(open('/verif/MANIFEST.json'))
for c in m['checks']:
    try:
        jsonschema.validate(json.load(open(c['evidence_file'])), es)
    except Exception as e:
        print('EVIDENCE INVALID', c['property_id'], str(e)[:300])
print('manifest valid;', len(m['checks']), 'checks')
