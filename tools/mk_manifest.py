#!/usr/bin/env python3
"""Regenerates /verif/MANIFEST.json from the table below (kept in one place so
the manifest stays valid while checks are added)."""
import json, os, subprocess
V = os.path.dirname(os.path.dirname(os.path.abspath(__file__)))

CHECKS = {
 # id: (category, technique, text, note, design_ref)
}

def add(id, cat, technique, text, note, ref):
    CHECKS[id] = (cat, technique, text, note, ref)

add("C02", "exploration", "runtime monitor: decoded content vs independent reference interpreter over generated and device streams",
    "Every decoded field of every message is compared with the value an independent reference interpretation of the same wire bytes gives, over PRNG-determined streams covering all profile fields x compatible definition types x both byte orders x value patterns, plus the device corpus parsed by an independent grammar parser. Sampled, not exhaustive: 'held on the executions in the evidence file'.",
    "Trusted base: harness/ref (base-type table, bit-serial CRC, wire builder, grammar parser, interpreter), self-tested against device files and the CRC catalogue value; struct-field positions come from the hook table (C15 checks that table).",
    "DESIGN.md §3 C02")
add("C14", "exploration", "runtime monitor: exhaustive (state, byte) transition comparison with a bit-serial reference CRC; streaming/partition/residue monitor",
    "All 65536x256 register transitions are driven through the public API and compared with a bit-serial CRC-16/ARC; streaming interface checked on PRNG strings and write partitions. The transition space is enumerated completely.",
    "Trusted base: 12-line bit-serial CRC (catalogue check value 0xBB3D).",
    "DESIGN.md §3 C14")
add("C15", "exploration", "runtime assertion walk over the live profile tables (hook) plus one decode/encode execution per entry; independent workbook reader for field numbers",
    "Every table entry, known message, constructor and container member of the compiled-in profile is examined through the read-only hook and exercised by one decode (and re-encode) per entry; field numbers/names are compared with the bundled SDK 21.40 workbook read by the harness's own xlsx reader. Complete over the compiled-in profile.",
    "Trusted base: harness base-type table and xlsx reader; entries newer than SDK 21.40 have no independent name source.",
    "DESIGN.md §3 C15")
add("C17", "exploration", "runtime monitor: exhaustive enumeration of all 2^32 inputs against closed-form oracles",
    "All 2^32 semicircle values for both coordinate types and all 2^32 second counts are run through the real constructors/accessors/conversions and compared with closed-form oracles; printed form on a stride (quick) or every value (thorough).",
    "Trusted base: the closed-form oracles in checks/c17.go; time conversion reached through the verif hook.",
    "DESIGN.md §3 C17")

add("C03", "exploration", "runtime monitor: routing compared with the slots the public container types declare (reflection), unique serial numbers; exhaustive file-type / accessor matrix",
    "All 256 file_id.type values with the 17x17 accessor matrix are enumerated completely; routing is decided on PRNG interleavings of messages of all known types carrying unique serial numbers, compared with the routing the declared container types prescribe. A second file_id that restates / changes / drops the type is exercised separately.",
    "Trusted base: the container struct declarations themselves (a *XMsg member is a single-valued slot, a []*XMsg member an ordered one) and the reference interpreter.",
    "DESIGN.md §3 C03")
add("C05", "exploration", "runtime monitor: Encode output parsed by an independent strict FIT grammar parser and reference interpreter, compared with the File",
    "Every byte string Encode produces for PRNG-built Files is parsed by an independent strict grammar parser (header, sizes, CRCs by a bit-serial CRC, definitions before data), each definition is compared with the profile, the stream is interpreted by the reference interpreter and compared with the File's values, and the File's header/CRC fields are compared with the written bytes. Sampled.",
    "Trusted base: harness/ref grammar parser and interpreter; hook table for struct positions.",
    "DESIGN.md §3 C05")
add("C06", "exploration", "runtime monitor: Decode(Encode(F)) compared with F under the statement's relaxations; every hosted profile field set alone",
    "Round trips of PRNG-built in-domain Files and of every hosted profile field set alone (every file type hosting it, both byte orders) are compared field for field under exactly the relaxations the statement lists; component destinations by the reference component rule. Known findings F5/F6/F7 matched by exact prediction.",
    "Trusted base: reference component rules, defect predictor (lib/defect.go) for the listed findings.",
    "DESIGN.md §3 C06")
add("C07", "exploration", "runtime monitor over three generations decode/encode/decode/encode/decode of accepted inputs (device corpus, model streams, CRC-fixed mutants)",
    "For every accepted input the monitor checks that Encode neither panics nor fails, that its output passes CheckIntegrity and decodes to the same counts and values (strings/arrays up to profile lengths), and that a second round trip reproduces the content exactly. Sampled over device files, model streams and CRC-fixed byte mutants.",
    "Trusted base: the library's own Decode as the observer of Encode output (values are cross-checked by C02/C05); known findings F5, F12a, F16 matched by signature.",
    "DESIGN.md §3 C07")
add("C12", "exploration", "runtime monitor: every decoded time field compared with a reference timestamp state machine over generated sequences",
    "Sequences mixing explicit, compressed (all 32 offsets, rollovers, long runs) and local timestamps are decoded and every time field compared with a 30-line reference state machine. Sampled.",
    "Trusted base: ref/interp.go time rules written from the FIT protocol; two corners the statement leaves open are not generated (see assumptions in the evidence).",
    "DESIGN.md §3 C12")
add("C13", "exploration", "runtime monitor: decoded content vs reference interpreter with 16 definition slots, unique serial numbers per message",
    "Interleavings of definitions and data over up to 16 local types with redefinitions, compressed headers and undefined-slot records; every message carries a unique serial so a record decoded with the wrong definition or disturbed by another slot is identified. Sampled.",
    "Trusted base: reference interpreter; hook table.",
    "DESIGN.md §3 C13")
add("C16", "exploration", "runtime monitor: 8 option combinations per stream through a counting reader and formatting logger; counts vs reference interpreter",
    "Each generated stream (intact, truncated, CRC-corrupted, undefined local type) is decoded under all 8 option combinations; content, error and bytes consumed must agree, unknown lists must be absent/sorted/exact against the model (bounded by completed vs in-flight records on failures). Sampled.",
    "Trusted base: reference interpreter's unknown-item counting (records of known messages per unlisted field number; records per unknown message number).",
    "DESIGN.md §3 C16")
add("C18", "exploration", "runtime monitor: decoded component destinations vs reference component rules; exact predictor of listed defects",
    "Streams of the five component-bearing messages under every hosting file type, 1-3 files back to back and chained, compared with reference component rules (per-file accumulators). Deviations equal to the exact prediction of known findings F5/F6/F7 are reported as such; anything else is a violation. Sampled.",
    "Trusted base: ref/components.go written from the SDK profile's Components/Bits/Accumulate columns; defect predictor shadowing the library's process-lifetime accumulator.",
    "DESIGN.md §3 C18")
add("C20", "exploration", "runtime monitor: String() of every constant and of all other 8/16-bit values (table generated from the tree's types.go at check time); byte-for-byte regeneration with the repository's stringer",
    "The constant table is regenerated from the tree under test on every run; every constant and every other value of 8/16-bit types (complete) and sampled 32-bit values are printed and compared; the verif-tagged fitgen regenerates types_string.go which must be byte-identical.",
    "Trusted base: go/parser reading types.go; the Type(n) convention of the Go stringer.",
    "DESIGN.md §3 C20")

add("C01", "exploration", "runtime monitor: panic/hang guard (recover, logical read-after-EOF bound, doubly-confirmed watchdog, child-process crash capture) over a complete enumeration of single-field definitions and over structured mutants through six entry points and several read chunkings",
    "Totality is decided by observing executions under a guard that turns panics, fatal runtime errors, logical hangs and memory blow-ups into events. The single-field definition space (message x field number x base byte x size x byte order) is enumerated completely for the tier's message/field set; arbitrary byte strings are sampled by structured mutation through all six entry points and three chunkers.",
    "Trusted base: the guard in lib/exec.go and the process-level crash capture in lib/framework.go; 'every byte string' is sampled outside the enumerated sub-space.",
    "DESIGN.md §3 C01")
add("C04", "fault_enumeration", "fault injection: enumeration of bit-burst corruptions of valid files and of header field/CRC variants, verdicts of four APIs compared with a reference verdict",
    "Every bit position of 44 small valid files (all 17 types, both header sizes, Encode outputs, device files) is corrupted with XOR bursts of span <= 16 bits (quick: all 1- and 2-bit patterns everywhere plus all 2^15 patterns on every 29th position; thorough: all patterns everywhere) and both Decode and CheckIntegrity must report an error; header variants are enumerated and the verdicts of CheckIntegrity(headerOnly), DecodeHeader, Decode and Header.CheckIntegrity compared with a reference verdict.",
    "Trusted base: bit-serial CRC for the header verdict; the burst guarantee is taken in the checksum's serial (LSB-first) bit order.",
    "DESIGN.md §3 C04")
add("C08", "exploration", "runtime monitor over call histories: result digest of every call vs the same call made first in a fresh process (one child process per distinct call) and vs its immediate repetition",
    "PRNG call histories (40-200 calls over device files, model streams with every accumulated component source, API-built Files) each run in their own process; every call's result digest is compared with a fresh-process baseline and with its immediate repetition; Encode is additionally run twice on identical Files. Sampled.",
    "Trusted base: the digest covers everything a user can observe (lib/content.go); record.distance is canonicalised through the defect predictor for known findings F5/F6.",
    "DESIGN.md §3 C08")
add("C09", "exploration", "Go race detector (-race build of harness and library, GORACE log parsed and classified by innermost repository frames) plus per-call digest vs sequential baseline under 2-64 goroutines with yielding short-read readers",
    "Concurrent PRNG call sequences on private inputs under the race detector; reports are de-duplicated by the innermost repository frame pair and entry points; every call's digest must equal the digest of the call run alone; the evidence records how many calls actually overlapped and which call-kind pairs did. Sampled schedules.",
    "Trusted base: the Go race detector (reports only races that occur in the produced executions); known finding F5 matched by stack signature.",
    "DESIGN.md §3 C09")
add("C10", "exploration", "runtime monitor: counting/poisoned reader (frame || poison || next file) under 14 read chunkings; bytes delivered and results compared per entry point; chained vs solo decode",
    "Every entry point is run on device frames and model files of sizes straddling the internal buffer under 14 chunkers through a reader that would deliver poison past the frame; consumption must be exact on success and never exceed the frame; chains must decode to the solo results. Sampled files x complete chunker set.",
    "Trusted base: lib/exec.go Reader (counts delivered bytes); greedy chunkers make any over-ask visible.",
    "DESIGN.md §3 C10")
add("C11", "fault_enumeration", "fault injection at every byte offset: clean cut and injected read error, six entry points, two chunkers; partial Files compared with the reference interpretation of the complete records",
    "For each stream of the set, every offset x {clean cut, non-EOF read fault} x six entry points x {1-byte, greedy} is executed and judged against the needed-prefix rule; partial Files must hold exactly the records complete before the cut. Complete over the offsets of the chosen streams; the streams are sampled.",
    "Trusted base: plan record offsets (ref/wire.go) and the reference interpreter for partial content.",
    "DESIGN.md §3 C11")

add("C19", "exploration", "runtime monitor over executions of the real fitgen command on stock and variant workbooks: exit status, byte-identical repeated output, compile + execute the generated code and compare its tables with an independent reading of the workbook",
    "The command built from the working tree is run four times per configuration (xlsx and SDK zip input) on the 5 bundled workbooks and on dependency-closed variants with PRNG subsets of rows disabled; outputs must be identical, declare the SDK version, compile with the library's support code, and a program linked against them must show exactly the struct fields and lookup entries the workbook's enabled rows prescribe. Sampled subsets.",
    "Trusted base: harness/ref/xlsx.go (archive/zip + encoding/xml reader, not the spreadsheet library the generator uses) and the dependency closure computed from it.",
    "DESIGN.md §3 C19")

ALL = ["C%02d" % i for i in range(1, 21)]

def main():
    repo_commits = subprocess.run(["git", "-C", "/repo", "log", "--format=%h %s"], capture_output=True, text=True).stdout.splitlines()
    hooks = [l.split()[0] for l in repo_commits if l.split(" ", 1)[1].startswith("verif:")]
    m = {
        "version": 1,
        "setup_cmd": "cd /verif && tools/setup.sh",
        "hooks": {
            "guard": "verif",
            "enable": "go build -tags verif (done by /verif/run for every check)",
            "baseline_off_cmd": "cd /repo && GOFLAGS=-mod=mod GOPROXY=off GOSUMDB=off GOTOOLCHAIN=local go test -vet=off -count=1 -timeout 25m ./...",
            "source_commits": hooks,
            "add_only": True,
        },
        "engines": [{
            "name": "vcheck", "path": "/verif/harness",
            "serves_properties": sorted(CHECKS),
            "kind_free_text": "Go harness: runtime monitors over executions of the real library (built from /repo's working tree with -tags verif), sharded over child processes; reference model in harness/ref",
        }],
        "checks": [],
        "notes": "All checks: ./run <id> <tier>; exit 0 held, 1 violated (VIOLATION line), 2 inconclusive (harness no longer builds against the tree / observation points not reached). Known findings: /verif/known_findings.json.",
        "not_applicable": [],
    }
    for id in sorted(CHECKS):
        cat, tech, text, note, ref = CHECKS[id]
        m["checks"].append({
            "property_id": id,
            "quick_cmd": "./run %s quick" % id,
            "thorough_cmd": "./run %s thorough" % id,
            "evidence_file": "/verif/evidence/%s.json" % id,
            "replay_cmd_template": "./run %s quick --replay {path}" % id,
            "engine": "vcheck",
            "level_claimed": {"category": cat, "text": text, "design_ref": ref},
            "level_note": note,
            "technique": tech,
        })
    for id in ALL:
        if id not in CHECKS:
            m["not_applicable"].append({"property_id": id, "reason": "check not built yet (work in progress; the technique applies, see DESIGN.md §3)"})

    json.dump(m, open(os.path.join(V, "MANIFEST.json"), "w"), indent=1)
    print("wrote MANIFEST.json with", len(m["checks"]), "checks")

main()
