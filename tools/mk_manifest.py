#!/usr/bin/env python3
"""Regenerates /verif/MANIFEST.json from the table below (kept in one place so
the manifest stays valid while checks are added)."""
import json, os, subprocess
V = os.path.dirname(os.path.dirname(os.path.abspath(__file__)))

CHECKS = {
 # id: (category, technique, text, note, design_ref)
}

def add(id, cat, technique, text, note, ref):
    CHECKS[id] = (cat, technique, text, note, ref)

add("C02", "exploration", "runtime monitor: decoded content vs independent reference interpreter over generated and device streams",
    "Every decoded field of every message is compared with the value an independent reference interpretation of the same wire bytes gives, over PRNG-determined streams covering all profile fields x compatible definition types x both byte orders x value patterns, plus the device corpus parsed by an independent grammar parser. Sampled, not exhaustive: 'held on the executions in the evidence file'.",
    "Trusted base: harness/ref (base-type table, bit-serial CRC, wire builder, grammar parser, interpreter), self-tested against device files and the CRC catalogue value; struct-field positions come from the hook table (C15 checks that table).",
    "DESIGN.md §3 C02")
add("C14", "exploration", "runtime monitor: exhaustive (state, byte) transition comparison with a bit-serial reference CRC; streaming/partition/residue monitor",
    "All 65536x256 register transitions are driven through the public API and compared with a bit-serial CRC-16/ARC; streaming interface checked on PRNG strings and write partitions. The transition space is enumerated completely.",
    "Trusted base: 12-line bit-serial CRC (catalogue check value 0xBB3D).",
    "DESIGN.md §3 C14")
add("C15", "exploration", "runtime assertion walk over the live profile tables (hook) plus one decode/encode execution per entry; independent workbook reader for field numbers",
    "Every table entry, known message, constructor and container member of the compiled-in profile is examined through the read-only hook and exercised by one decode (and re-encode) per entry; field numbers/names are compared with the bundled SDK 21.40 workbook read by the harness's own xlsx reader. Complete over the compiled-in profile.",
    "Trusted base: harness base-type table and xlsx reader; entries newer than SDK 21.40 have no independent name source.",
    "DESIGN.md §3 C15")
add("C17", "exploration", "runtime monitor: exhaustive enumeration of all 2^32 inputs against closed-form oracles",
    "All 2^32 semicircle values for both coordinate types and all 2^32 second counts are run through the real constructors/accessors/conversions and compared with closed-form oracles; printed form on a stride (quick) or every value (thorough).",
    "Trusted base: the closed-form oracles in checks/c17.go; time conversion reached through the verif hook.",
    "DESIGN.md §3 C17")

ALL = ["C%02d" % i for i in range(1, 21)]

def main():
    repo_commits = subprocess.run(["git", "-C", "/repo", "log", "--format=%h %s"], capture_output=True, text=True).stdout.splitlines()
    hooks = [l.split()[0] for l in repo_commits if l.split(" ", 1)[1].startswith("verif:")]
    m = {
        "version": 1,
        "setup_cmd": "cd /verif && ./run selftest",
        "hooks": {
            "guard": "verif",
            "enable": "go build -tags verif (done by /verif/run for every check)",
            "baseline_off_cmd": "cd /repo && GOFLAGS=-mod=mod GOPROXY=off GOSUMDB=off GOTOOLCHAIN=local go test -vet=off -count=1 -timeout 25m ./...",
            "source_commits": hooks,
            "add_only": True,
        },
        "engines": [{
            "name": "vcheck", "path": "/verif/harness",
            "serves_properties": sorted(CHECKS),
            "kind_free_text": "Go harness: runtime monitors over executions of the real library (built from /repo's working tree with -tags verif), sharded over child processes; reference model in harness/ref",
        }],
        "checks": [],
        "notes": "All checks: ./run <id> <tier>; exit 0 held, 1 violated (VIOLATION line), 2 inconclusive (harness no longer builds against the tree / observation points not reached). Known findings: /verif/known_findings.json.",
        "not_applicable": [],
    }
    for id in sorted(CHECKS):
        cat, tech, text, note, ref = CHECKS[id]
        m["checks"].append({
            "property_id": id,
            "quick_cmd": "./run %s quick" % id,
            "thorough_cmd": "./run %s thorough" % id,
            "evidence_file": "/verif/evidence/%s.json" % id,
            "replay_cmd_template": "./run %s quick --replay {path}" % id,
            "engine": "vcheck",
            "level_claimed": {"category": cat, "text": text, "design_ref": ref},
            "level_note": note,
            "technique": tech,
        })
    for id in ALL:
        if id not in CHECKS:
            m["not_applicable"].append({"property_id": id, "reason": "check not built yet (work in progress; the technique applies, see DESIGN.md §3)"})
    json.dump(m, open(os.path.join(V, "MANIFEST.json"), "w"), indent=1)
    print("wrote MANIFEST.json with", len(m["checks"]), "checks")

main()
