#!/usr/bin/env python3
"""meta_needs.py: copies, for every seeded change, the columns "what it needs to manifest" /
"caught by" / "what was added" of its row in DESIGN.md §6 into seeded/<id>/meta.json (fields
needs, caught_by, added) together with the commands that were run for it (field ran)."""
import json, os, re
V = os.path.dirname(os.path.dirname(os.path.abspath(__file__)))
rows = {}
for l in open(os.path.join(V, "DESIGN.md")):
    m = re.match(r'\| ((?:/ )?C\d\d-\d+[a-z]?(?: / C\d\d-\d+[a-z]?)*) (.*)\|\s*$', l)
    if not m:
        continue
    cols = [c.strip() for c in l.strip().strip('|').split('|')]
    if len(cols) < 3:
        continue
    ids = re.findall(r'C\d\d-\d+[a-z]?', cols[0].split(' ')[0] + ' ' + ' '.join(cols[0].split(' ')[:4]))
    first = re.match(r'(?:/ )?(C\d\d-\d+[a-z]?(?: / C\d\d-\d+[a-z]?)*)', cols[0]).group(1)
    for i in re.findall(r'C\d\d-\d+[a-z]?', first):
        rows.setdefault(i, cols)
n = 0
for d in sorted(os.listdir(os.path.join(V, "seeded"))):
    mp = os.path.join(V, "seeded", d, "meta.json")
    if not os.path.exists(mp):
        continue
    meta = json.load(open(mp))
    cols = rows.get(d)
    if cols:
        meta["change"] = cols[0]
        meta["needs"] = cols[1]
        meta["caught_by"] = cols[2]
        if len(cols) > 3 and cols[3]:
            meta["added_to_catch_it"] = cols[3]
        n += 1
    prop = meta.get("property", d[:3])
    meta["ran"] = [
        "tools/seed_intake.py <agent worktree> %s %s   (scratch worktree of /repo: demo without the change, git apply, go build ./... with and without -tags verif, demo with the change, go test -vet=off -count=1 ./... with the change)" % (prop, d),
        "tools/mutants.py --dirs seeded --only %s --no-suite   (scratch worktree with the patch applied; VERIF_REPO=<worktree> ./run %s quick must exit 1 with a VIOLATION line)" % (d, prop),
    ]
    json.dump(meta, open(mp, "w"), indent=1)
print("meta.json files with a DESIGN row:", n)
