#!/usr/bin/env python3
"""Mutation validation: applies each catalogued patch to a scratch worktree of
/repo, confirms that the tree still builds and passes the repository's own test
suite, runs the listed quick checks against it (VERIF_REPO=<scratch>,
VERIF_OUT=<scratch out>) and expects exit 1 with a VIOLATION line.

  tools/mutants.py [-j N] [--only substr[,substr,=exactname...]] [--dirs mutants seeded] [--no-suite]

Writes mutants/RESULTS.json and prints a table. Scratch trees live under
/tmp/verif-mut and are removed as soon as each mutant is done."""
import argparse, json, os, shutil, subprocess, sys, time, concurrent.futures as cf
V = os.path.dirname(os.path.dirname(os.path.abspath(__file__)))
ENV = dict(os.environ, GOFLAGS="-mod=mod", GOPROXY="off", GOSUMDB="off", GOTOOLCHAIN="local")
SCR = "/tmp/verif-mut"

def sh(cmd, cwd=None, env=None, timeout=3600):
    p = subprocess.run(cmd, cwd=cwd, env=env or ENV, shell=isinstance(cmd, str), capture_output=True, text=True, timeout=timeout)
    return p.returncode, p.stdout + p.stderr

def one(mdir, args):
    name = os.path.basename(mdir.rstrip("/"))
    group = os.path.basename(os.path.dirname(mdir.rstrip("/")))
    meta = json.load(open(os.path.join(mdir, "meta.json")))
    checks = meta.get("checks") or [meta["property"]]
    wt = os.path.join(SCR, group + "-" + name)
    out = wt + ".out"
    res = {"mutant": group + "/" + name, "property": meta.get("property"), "checks": {}, "suite": None}
    sh(["git", "-C", "/repo", "worktree", "remove", "--force", wt]); shutil.rmtree(wt, ignore_errors=True); shutil.rmtree(out, ignore_errors=True)
    rc, o = sh(["git", "-C", "/repo", "worktree", "add", "--detach", "-q", wt, "HEAD"])
    if rc != 0:
        res["error"] = "worktree: " + o[-300:]; return res
    try:
        rc, o = sh(["git", "apply", os.path.join(mdir, "patch.diff")], cwd=wt)
        if rc != 0:
            res["error"] = "patch does not apply: " + o[-400:]; return res
        rc, o = sh("go build ./... && go vet -tags verif . >/dev/null 2>&1; go build -tags verif ./...", cwd=wt)
        if rc != 0:
            res["error"] = "does not build: " + o[-400:]; return res
        if not args.no_suite:
            rc, o = sh("go test -vet=off -count=1 ./...", cwd=wt)
            res["suite"] = "pass" if rc == 0 else "FAIL"
            if rc != 0:
                res["suite_tail"] = o[-600:]
        for ck in checks:
            t0 = time.time()
            env = dict(ENV, VERIF_REPO=wt, VERIF_OUT=out, VERIF_SEED=str(args.seed))
            rc, o = sh([os.path.join(V, "run"), ck, "quick"], cwd=V, env=env)
            viol = [l for l in o.splitlines() if l.startswith("VIOLATION ")]
            first = next((l.strip() for l in o.splitlines() if l.startswith("  ") and "class x" not in l), "")
            res["checks"][ck] = {"exit": rc, "violations": len(viol), "caught": rc == 1 and len(viol) > 0, "first": first[:300], "wall_s": round(time.time() - t0, 1)}
    finally:
        sh(["git", "-C", "/repo", "worktree", "remove", "--force", wt]); shutil.rmtree(wt, ignore_errors=True); shutil.rmtree(out, ignore_errors=True)
    return res

def main():
    ap = argparse.ArgumentParser()
    ap.add_argument("-j", type=int, default=3)
    ap.add_argument("--only", default="")
    ap.add_argument("--dirs", nargs="*", default=["mutants", "seeded"])
    ap.add_argument("--no-suite", action="store_true")
    ap.add_argument("--seed", type=int, default=1)
    args = ap.parse_args()
    os.makedirs(SCR, exist_ok=True)
    mdirs = []
    for d in args.dirs:
        base = os.path.join(V, d)
        if not os.path.isdir(base):
            continue
        for n in sorted(os.listdir(base)):
            p = os.path.join(base, n)
            if os.path.isfile(os.path.join(p, "patch.diff")) and os.path.isfile(os.path.join(p, "meta.json")) and (not args.only or any((n == o[1:]) if o.startswith("=") else (o in p) for o in args.only.split(",") if o)):
                mdirs.append(p)
    results = []
    with cf.ThreadPoolExecutor(max_workers=args.j) as ex:
        for r in ex.map(lambda m: one(m, args), mdirs):
            results.append(r)
            ck = " ".join("%s:%s" % (k, "CAUGHT" if v["caught"] else "missed(exit %d)" % v["exit"]) for k, v in r["checks"].items())
            print("%-44s suite=%-5s %s %s" % (r["mutant"], r["suite"], ck, r.get("error", "")), flush=True)
    sh(["git", "-C", "/repo", "worktree", "prune"])
    path = os.path.join(V, "mutants", "RESULTS.json")
    old = {}
    if os.path.exists(path):
        try:
            old = {r["mutant"]: r for r in json.load(open(path))}
        except Exception:
            old = {}
    for r in results:
        old[r["mutant"]] = r
    os.makedirs(os.path.dirname(path), exist_ok=True)
    json.dump(sorted(old.values(), key=lambda r: r["mutant"]), open(path, "w"), indent=1)
    missed = [r["mutant"] for r in results if not r.get("error") and not any(v["caught"] for v in r["checks"].values())]
    print("mutants: %d run, %d not caught by their listed checks: %s" % (len(results), len(missed), missed))
    broken = [r["mutant"] for r in results if r.get("error")]
    if broken:
        print("mutants: %d could not be run (patch does not apply / does not build): %s" % (len(broken), broken))

main()
