#!/bin/bash
# sweep.sh <tier> <seed>... : runs every registered check at the given seeds; prints one line per run.
# SWEEP_CHECKS="C05 C06" restricts / orders the checks.
# Evidence/replay of the sweep go to a scratch VERIF_OUT so that committed evidence is not touched.
TIER=$1; shift
cd "$(dirname "$0")/.."
export VERIF_OUT=$(mktemp -d /tmp/verif-sweep.XXXXXX)
fail=0
for seed in "$@"; do
  for c in ${SWEEP_CHECKS:-C01 C02 C03 C04 C05 C06 C07 C08 C09 C10 C11 C12 C13 C14 C15 C16 C17 C18 C19 C20}; do
    t0=$(date +%s)
    out=$(VERIF_SEED=$seed ./run $c $TIER 2>&1); rc=$?
    t1=$(date +%s)
    echo "seed=$seed $c rc=$rc $((t1-t0))s $(echo "$out" | grep -c '^KNOWN-FINDING') known | $(echo "$out" | grep "$c $TIER:" | tail -1)"
    if [ $rc -ne 0 ]; then fail=1; echo "$out" | grep -v '^KNOWN-FINDING' | tail -15; fi
  done
done
rm -rf "$VERIF_OUT"
echo "sweep done fail=$fail"
exit $fail
