package lib

import (
	"go/ast"
	"go/parser"
	"go/token"
	"os"
	"path/filepath"
	"sort"
	"strconv"
	"strings"
	"sync"
)

var (
	dictOnce sync.Once
	dictVals []uint64
)

// SourceDictionary returns the integer values that occur in the hand-written source files of
// the tree under test: integer literals, and the values of named constants of the generated
// types (types.go) where such a constant is referred to by name. It is the dictionary a fuzzer
// takes from the program text: values a piece of code compares its input against are far more
// likely to lie in it than anywhere else in 2^16 or 2^32. Generated files (types.go, messages.go,
// profile.go, types_string.go), tests and the verif-tagged files are not read for literals.
func SourceDictionary() []uint64 {
	dictOnce.Do(func() {
		repo := os.Getenv("VERIF_REPO")
		if repo == "" {
			repo = "/repo"
		}
		fset := token.NewFileSet()
		consts := map[string]uint64{}
		if tf, err := parser.ParseFile(fset, filepath.Join(repo, "types.go"), nil, 0); err == nil {
			for _, d := range tf.Decls {
				gd, ok := d.(*ast.GenDecl)
				if !ok || gd.Tok != token.CONST {
					continue
				}
				for _, s := range gd.Specs {
					vs := s.(*ast.ValueSpec)
					for i, n := range vs.Names {
						if i < len(vs.Values) {
							if bl, ok := vs.Values[i].(*ast.BasicLit); ok && bl.Kind == token.INT {
								if v, err := strconv.ParseUint(bl.Value, 0, 64); err == nil {
									consts[n.Name] = v
								}
							}
						}
					}
				}
			}
		}
		seen := map[uint64]bool{}
		files, _ := filepath.Glob(filepath.Join(repo, "*.go"))
		for _, f := range files {
			base := filepath.Base(f)
			if strings.HasSuffix(base, "_test.go") || strings.HasPrefix(base, "verif_") || base == "types.go" || base == "messages.go" || base == "profile.go" || base == "types_string.go" {
				continue
			}
			af, err := parser.ParseFile(fset, f, nil, 0)
			if err != nil {
				continue
			}
			ast.Inspect(af, func(n ast.Node) bool {
				switch x := n.(type) {
				case *ast.BasicLit:
					if x.Kind == token.INT {
						if v, err := strconv.ParseUint(x.Value, 0, 64); err == nil {
							seen[v] = true
						}
					}
				case *ast.Ident:
					if v, ok := consts[x.Name]; ok {
						seen[v] = true
					}
				}
				return true
			})
		}
		for v := range seen {
			dictVals = append(dictVals, v)
		}
		sort.Slice(dictVals, func(i, j int) bool { return dictVals[i] < dictVals[j] })
	})
	return dictVals
}
