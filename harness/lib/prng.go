// Package lib adapts the code under test (github.com/tormoder/fit, built with
// the verif tag) to the reference model in package ref.
package lib

import (
	"hash/fnv"
	"os"
	"strconv"
)

// Rand is a splitmix64 generator. Every random choice of the harness comes
// from a stream derived from (VERIF_SEED, property id, case index).
type Rand struct{ s uint64 }

func mix(z uint64) uint64 {
	z += 0x9E3779B97F4A7C15
	z = (z ^ z>>30) * 0xBF58476D1CE4E5B9
	z = (z ^ z>>27) * 0x94D049BB133111EB
	return z ^ z>>31
}

// Seed returns VERIF_SEED (default 1).
func Seed() int64 {
	if s := os.Getenv("VERIF_SEED"); s != "" {
		if v, err := strconv.ParseInt(s, 10, 64); err == nil {
			return v
		}
	}
	return 1
}

// NewRand derives a stream for one case.
func NewRand(prop string, idx uint64) *Rand {
	h := fnv.New64a()
	h.Write([]byte(prop))
	return &Rand{s: mix(uint64(Seed())) ^ mix(h.Sum64()) ^ mix(idx*0x9E3779B97F4A7C15+1)}
}

func (r *Rand) U64() uint64 {
	r.s += 0x9E3779B97F4A7C15
	z := r.s
	z = (z ^ z>>30) * 0xBF58476D1CE4E5B9
	z = (z ^ z>>27) * 0x94D049BB133111EB
	return z ^ z>>31
}

// Intn returns a value in [0,n).
func (r *Rand) Intn(n int) int {
	if n <= 1 {
		return 0
	}
	return int(r.U64() % uint64(n))
}

// Chance returns true with probability num/den.
func (r *Rand) Chance(num, den int) bool { return r.Intn(den) < num }

func (r *Rand) Byte() byte { return byte(r.U64()) }

func (r *Rand) Bytes(n int) []byte {
	b := make([]byte, n)
	for i := 0; i < n; i += 8 {
		v := r.U64()
		for j := 0; j < 8 && i+j < n; j++ {
			b[i+j] = byte(v >> (8 * uint(j)))
		}
	}
	return b
}

// Perm returns a permutation of 0..n-1.
func (r *Rand) Perm(n int) []int {
	p := make([]int, n)
	for i := range p {
		p[i] = i
	}
	for i := n - 1; i > 0; i-- {
		j := r.Intn(i + 1)
		p[i], p[j] = p[j], p[i]
	}
	return p
}
