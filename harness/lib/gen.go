package lib

import (
	"bytes"
	"sort"

	"verifharness/ref"
)

// GenGrammarPlan builds a grammar-valid plan that knows nothing about the
// profile: used to test the wire builder against the grammar parser.
func GenGrammarPlan(rng *Rand) *ref.Plan {
	p := &ref.Plan{HeaderSize: 14, Proto: 0x20, ProfVer: uint16(rng.Intn(3000))}
	if rng.Chance(1, 3) {
		p.HeaderSize = 12
	}
	var defs [16]*ref.Record
	n := 2 + rng.Intn(30)
	for i := 0; i < n; i++ {
		l := byte(rng.Intn(16))
		if defs[l] == nil || rng.Chance(1, 4) {
			r := ref.Record{IsDef: true, Local: l, Arch: byte(rng.Intn(2)), Global: uint16(rng.Intn(65535))}
			nf := rng.Intn(6)
			for k := 0; k < nf; k++ {
				bt := ref.BaseTypes[rng.Intn(len(ref.BaseTypes))]
				r.Fields = append(r.Fields, ref.FieldDef{Num: rng.Byte(), Size: byte(bt.Size * (1 + rng.Intn(3))), Base: bt.Code})
			}
			if rng.Chance(1, 4) {
				r.HasDev = true
				for k := rng.Intn(3); k > 0; k-- {
					r.Dev = append(r.Dev, ref.DevDef{Num: rng.Byte(), Size: byte(rng.Intn(20)), Idx: rng.Byte()})
				}
			}
			p.Records = append(p.Records, r)
			defs[l] = &p.Records[len(p.Records)-1]
			c := *defs[l]
			defs[l] = &c
			continue
		}
		d := defs[l]
		r := ref.Record{Local: l}
		if l < 4 && rng.Chance(1, 4) {
			r.Compressed = true
			r.TimeOffset = byte(rng.Intn(32))
		}
		for _, f := range d.Fields {
			r.Data = append(r.Data, rng.Bytes(int(f.Size)))
		}
		for _, f := range d.Dev {
			r.Data = append(r.Data, rng.Bytes(int(f.Size)))
		}
		p.Records = append(p.Records, r)
	}
	return p
}

// GenOpts steers the profile-driven plan generator.
type GenOpts struct {
	FileType       byte        // container type of the file
	Mesgs          []uint16    // known messages to draw from (nil: all known)
	Records        int         // approximate number of data records after file_id
	Locals         int         // number of local message types in use (1..16)
	Redefine       int         // chance in 100 that a step redefines a slot in use
	Narrow         int         // chance in 100 that an eligible scalar gets a narrower definition type
	BigEndian      int         // chance in 100 that a definition is big endian
	Unknown        int         // chance in 100 per definition to add unknown fields; also unknown messages / dev fields
	Compressed     int         // chance in 100 that a data record on slot 0..3 uses a compressed timestamp header
	MaxFields      int         // max profile fields per definition (0: 12)
	Serial         bool        // write a unique serial number into a designated field of each message
	AllFields      bool        // definitions carry every profile field of the message
	OnlyField      *ref.PField // definitions carry exactly this field (C15 style); nil otherwise
	NoTimeZero     bool        // never write 0 into an explicit timestamp (field 253)
	ExcludeFields  func(g uint16, num byte) bool
	HeaderSize     byte
	UndefinedLocal int  // chance in 1000 per step of a data record on an undefined slot (ends the plan)
	FixedWidthOnly bool // no narrow, no long arrays
	// ForceFields returns field numbers a definition of message g must carry
	// (if the profile has them).
	ForceFields func(rng *Rand, g uint16) []byte
	// Monster: chance in 1000 per definition step of a definition with up to 255 fields of up to 255
	// bytes plus up to 255 developer fields (records of up to ~130 KB are legal).
	Monster int
	// TimeModel: chance in 100 that a time field is generated the way a device writes it rather than
	// from the value patterns: an explicit timestamp equal or close to the current reference (also
	// exactly what a compressed header has just produced), local timestamps at a constant zone offset
	// from the reference, now and then a small "system time" (seconds since power-on) timestamp.
	TimeModel int
	// RedefSimilar: chance in 100 that a redefinition of a slot is a near-copy of the definition it
	// replaces with exactly one aspect changed (developer fields added or removed, byte order flipped,
	// reserved byte changed, one field dropped / added / resized, two fields swapped).
	RedefSimilar int
	// ZeroFieldDefs: chance in 100 that a definition of a known message lists no profile field at all.
	ZeroFieldDefs int
	// ValueFor overrides the value of a scalar field (ok=false: default patterns).
	ValueFor func(rng *Rand, g uint16, num byte) (v uint64, ok bool)
	// SizeFor overrides the definition size of a field (ok=false: default).
	SizeFor func(rng *Rand, g uint16, num byte) (size byte, ok bool)
	// RepeatPrev: chance in 100 that a data record repeats the previous record of its slot byte
	// for byte, except for a timestamp (field 253) a few seconds later: a device re-sending a
	// message, values related across consecutive messages.
	RepeatPrev int
	// ReservedBits: chance in 100 that a normal record header has reserved bits set (bit 4 of
	// a definition header, bits 4 and 5 of a data header), which readers ignore.
	ReservedBits int
	// Unknown253: chance in 100 that an unknown message (or a known message without a field 253
	// in the profile) carries a field numbered 253, uint32.
	Unknown253 int
	// DevDescribe: chance in 100 that a definition with developer fields is preceded by the
	// developer_data_id and field_description messages that announce them.
	DevDescribe int
	// BigFileId: chance in 100 that the leading file_id carries several long unlisted fields
	// (a first record of more than 512, sometimes more than 4096 bytes).
	BigFileId int
	// PostData may rewrite the field bytes of a data record after all fields were drawn
	// (values that depend on each other, as a device writes them).
	PostData func(rng *Rand, def *ref.Record, data [][]byte)
}

// KnownMesgs returns the known message numbers, sorted.
func KnownMesgs() []uint16 {
	p := Profile()
	var out []uint16
	for m := range p.Known {
		out = append(out, m)
	}
	sort.Slice(out, func(i, j int) bool { return out[i] < out[j] })
	return out
}

// HostedMesgs returns the message numbers file type ft has a slot for
// (common slots included, file_id excluded).
func HostedMesgs(ft byte) []uint16 {
	p := Profile()
	out := []uint16{49, 162}
	for _, s := range p.Files[ft] {
		out = append(out, s.Global)
	}
	return out
}

// UnknownMesgNums returns message numbers the profile does not know.
func UnknownMesgNums() []uint16 {
	p := Profile()
	var out []uint16
	for _, m := range []uint16{24, 60, 61, 100, 170, 300, 499, 1000, 0xFF00, 0xFFFE} {
		if !p.Known[m] {
			out = append(out, m)
		}
	}
	return out
}

// narrowTypes returns definition base types narrower than pb with the same
// signedness, integer-like only.
func narrowTypes(pb ref.BaseType) []ref.BaseType {
	var out []ref.BaseType
	for _, bt := range ref.BaseTypes {
		if bt.Code == pb.Code {
			continue
		}
		switch {
		case UnsignedLike(pb) && UnsignedLike(bt) && bt.Size <= pb.Size:
			// devices routinely write enum for uint8 fields and 1-byte types for wider dynamic fields
			out = append(out, bt)
		case pb.Integer && pb.Signed && bt.Integer && bt.Signed && bt.Size < pb.Size:
			out = append(out, bt)
		}
	}
	return out
}

// UnsignedLike reports whether a base type denotes a non-negative integer: enum, byte, uintN, uintNz.
func UnsignedLike(bt ref.BaseType) bool {
	return !bt.Signed && !bt.Float && bt.Code != 0x07
}

// GenFieldDef picks a compatible definition for profile field pf.
func GenFieldDef(rng *Rand, pf *ref.PField, o *GenOpts) ref.FieldDef {
	pb := ref.BaseTypes[pf.Base]
	fd := ref.FieldDef{Num: pf.Num, Base: pb.Code, Size: byte(pb.Size)}
	if pf.Kind != ref.KNative {
		// time: uint32, coordinates: sint32; narrow variants at 5 %.
		if !o.FixedWidthOnly && rng.Chance(5, 100) {
			if nt := narrowTypes(pb); len(nt) > 0 {
				t := nt[rng.Intn(len(nt))]
				fd.Base, fd.Size = t.Code, byte(t.Size)
			}
		}
		return fd
	}
	if pb.Code == 0x07 { // string or string array
		sizes := []int{1, 2, 3, 8, 16, int(pf.Length), int(pf.Length) + 1, int(pf.Length) + 7, 64, 255}
		if o.FixedWidthOnly {
			sizes = []int{int(pf.Length)}
		}
		s := sizes[rng.Intn(len(sizes))]
		if s > 255 {
			s = 255
		}
		if s < 1 {
			s = 1
		}
		fd.Size = byte(s)
		return fd
	}
	if pf.Array {
		max := 255 / pb.Size
		ks := []int{1, 2, 3, int(pf.Length), int(pf.Length) + 1, int(pf.Length) * 2, max}
		if o.FixedWidthOnly {
			ks = []int{int(pf.Length)}
		}
		k := ks[rng.Intn(len(ks))]
		if k < 1 {
			k = 1
		}
		if k > max {
			k = max
		}
		fd.Size = byte(k * pb.Size)
		return fd
	}
	if !o.FixedWidthOnly && o.Narrow > 0 && rng.Chance(o.Narrow, 100) {
		if nt := narrowTypes(pb); len(nt) > 0 {
			t := nt[rng.Intn(len(nt))]
			fd.Base, fd.Size = t.Code, byte(t.Size)
		}
	}
	return fd
}

// scalarPattern returns a value pattern for an n-byte element of base type bt.
func scalarPattern(rng *Rand, bt ref.BaseType) uint64 {
	n := uint(bt.Size * 8)
	mask := ^uint64(0)
	if n < 64 {
		mask = 1<<n - 1
	}
	switch rng.Intn(10) {
	case 0:
		return 0
	case 1:
		return 1
	case 2:
		return bt.Invalid
	case 3:
		return (bt.Invalid - 1) & mask
	case 4:
		return 1 << (n - 1)
	case 5:
		return mask
	case 6:
		return 0xAAAAAAAAAAAAAAAA & mask
	case 7:
		return 0x5555555555555555 & mask
	default:
		return rng.U64() & mask
	}
}

var stringPool = []string{"\uFFFDreplacement\uFFFD character inside a long string \uFFFD", "ab\uFFFD", "", "a", "Garmin", "fēnix 6", "日本語テキスト", "éàü", "Edge 1030 Plus", "x\xffy", "tab\there", "0123456789ABCDEF0123456789abcdef0123456789", "\uFEFFmark first", " padded ", "\r\n", "\uFEFF"}

// GenFieldData produces wire bytes for a field with definition fd. pf may be
// nil (unknown field).
func GenFieldData(rng *Rand, pf *ref.PField, fd ref.FieldDef, arch byte, o *GenOpts) []byte {
	size := int(fd.Size)
	out := make([]byte, size)
	db, ok := ref.BaseByCode(fd.Base)
	if !ok || pf == nil {
		copy(out, rng.Bytes(size))
		return out
	}
	pb := ref.BaseTypes[pf.Base]
	if pb.Code == 0x07 && pf.Kind == ref.KNative {
		if !pf.Array {
			if keep := int(pf.Length) - 1; size > int(pf.Length) && keep >= 4 && rng.Chance(1, 3) {
				// longer than the profile's size for this field, valid UTF-8, with a multi-byte
				// character lying across the place where an encoder has to cut (every alignment:
				// one, two or three of its bytes before the cut)
				ch := []string{"\u00e9", "\u65e5", "\U0001F600", "\U00010348"}[rng.Intn(4)]
				k := 1 + rng.Intn(len(ch)-1)
				b := make([]byte, 0, size)
				for len(b) < keep-k {
					b = append(b, 'a'+byte(rng.Intn(26)))
				}
				b = append(b, ch...)
				for len(b) < size-1 && rng.Chance(5, 6) {
					b = append(b, 'A'+byte(rng.Intn(26)))
				}
				if len(b) <= size {
					copy(out, b)
					return out
				}
			}
			switch rng.Intn(6) {
			case 0: // empty
			case 1: // fills the field, unterminated
				for i := range out {
					out[i] = 'A' + byte(rng.Intn(26))
				}
			case 2: // terminated early, garbage after the terminator
				copy(out, rng.Bytes(size))
				for i := range out {
					if out[i] == 0 {
						out[i] = 1
					}
				}
				out[rng.Intn(size)] = 0
			default:
				s := stringPool[rng.Intn(len(stringPool))]
				copy(out, s)
				if len(s) < size {
					// rest stays NUL
				}
			}
			return out
		}
		// string array: NUL-terminated non-empty strings, then NUL padding;
		// the last may be unterminated when it fills the field.
		pos := 0
		for pos < size && rng.Chance(3, 4) {
			l := 1 + rng.Intn(6)
			if pos+l > size {
				l = size - pos
			}
			for i := 0; i < l; i++ {
				out[pos+i] = 'a' + byte(rng.Intn(26))
			}
			pos += l
			if pos < size {
				pos++ // terminator
			}
		}
		return out
	}
	narrow := db.Code != pb.Code
	elem := func() uint64 {
		if o != nil && o.ValueFor != nil && !pf.Array {
			if v, ok := o.ValueFor(rng, pf.Mesg, pf.Num); ok {
				return v
			}
		}
		for {
			v := scalarPattern(rng, db)
			if narrow && v == db.Invalid {
				// Whether the narrow type's invalid value denotes
				// "invalid" or the number is not defined by the
				// statement; not generated.
				continue
			}
			if pf.Kind == ref.KTimeUTC && pf.Num == 253 && o != nil && o.NoTimeZero && (v == 0 || v >= 0xFFFF0000 && v != 0xFFFFFFFF) {
				// A reference of 0, or one that compressed offsets carry
				// past 2^32, is a corner the statement leaves open.
				continue
			}
			return v
		}
	}
	if db.Code == 0x0D || db.Size == 1 && pf.Array {
		for i := range out {
			out[i] = byte(elem())
		}
		return out
	}
	for i := 0; i+db.Size <= size; i += db.Size {
		ref.Put(out[i:], elem(), db.Size, arch)
	}
	return out
}

// serialField returns the field of message g that carries the unique serial
// number: the first native unsigned non-array field that is not a component
// source or destination, widest first.
func serialField(g uint16) *ref.PField {
	p := Profile()
	skip := map[byte]bool{}
	for _, n := range ref.CompSources(g) {
		skip[n] = true
	}
	for _, n := range ref.CompDests(g) {
		skip[n] = true
	}
	var best *ref.PField
	for _, pf := range p.ByMesg[g] {
		if pf.Kind != ref.KNative || pf.Array || skip[pf.Num] {
			continue
		}
		if g == 0 && pf.Num == 0 {
			continue
		}
		bt := ref.BaseTypes[pf.Base]
		if !bt.Integer || bt.Signed {
			continue
		}
		if best == nil || bt.Size > ref.BaseTypes[best.Base].Size && bt.Size <= 4 {
			best = pf
		}
	}
	return best
}

// PlanGen is a stateful generator of one plan.
type PlanGen struct {
	// it mirrors the reference interpretation of the records generated so far (time reference)
	it     *ref.Interp
	fed    int
	zone   int64
	O      GenOpts
	R      *Rand
	P      *ref.Plan
	defs   [16]*ref.Record
	serial uint32
	known  []uint16
	last   [16]*ref.Record // last data record written on each slot under its current definition
	dead   bool            // the plan has ended (a record that must be rejected was emitted)
}

// fileIdRecords returns the definition and data record of the leading file_id.
func fileIdRecords(rng *Rand, ft byte, local byte, arch byte, extra bool, unknown int, big int) []ref.Record {
	p := Profile()
	def := ref.Record{IsDef: true, Local: local, Arch: arch, Global: 0}
	def.Fields = append(def.Fields, ref.FieldDef{Num: 0, Size: 1, Base: 0x00})
	data := ref.Record{Local: local, Data: [][]byte{{ft}}}
	if unknown > 0 && rng.Chance(unknown, 100) {
		// the very first message of a file may carry fields the profile does not list, too
		for k := 1 + rng.Intn(2); k > 0; k-- {
			num := byte(100 + rng.Intn(100))
			if p.Field(0, num) != nil {
				continue
			}
			dup := false
			for _, f := range def.Fields {
				if f.Num == num {
					dup = true
				}
			}
			if dup {
				continue
			}
			bt := ref.BaseTypes[rng.Intn(len(ref.BaseTypes))]
			sz := bt.Size * (1 + rng.Intn(3))
			fd := ref.FieldDef{Num: num, Size: byte(sz), Base: bt.Code}
			if rng.Chance(1, 2) {
				def.Fields = append([]ref.FieldDef{fd}, def.Fields...)
				data.Data = append([][]byte{rng.Bytes(sz)}, data.Data...)
			} else {
				def.Fields = append(def.Fields, fd)
				data.Data = append(data.Data, rng.Bytes(sz))
			}
		}
	}
	if big > 0 && rng.Chance(big, 100) {
		// a leading file_id that is larger than any read-ahead a decoder might use for it:
		// several long manufacturer-specific fields (the record alone exceeds 512 bytes or 4096)
		n := 3 + rng.Intn(6)
		if rng.Chance(1, 6) {
			n = 17 + rng.Intn(4)
		}
		for k := 0; k < n && len(def.Fields) < 250; k++ {
			num := byte(200 + k)
			if p.Field(0, num) != nil {
				continue
			}
			sz := 150 + rng.Intn(106)
			def.Fields = append(def.Fields, ref.FieldDef{Num: num, Size: byte(sz), Base: 0x0D})
			data.Data = append(data.Data, rng.Bytes(sz))
		}
	}
	if extra {
		o := &GenOpts{}
		for _, pf := range p.ByMesg[0] {
			if pf.Num == 0 || !rng.Chance(1, 2) {
				continue
			}
			fd := GenFieldDef(rng, pf, o)
			def.Fields = append(def.Fields, fd)
			data.Data = append(data.Data, GenFieldData(rng, pf, fd, arch, o))
		}
	}
	if unknown > 0 && rng.Chance(unknown, 150) {
		// developer fields on the leading file_id message (their bytes follow the native fields)
		def.HasDev = true
		for k := 1 + rng.Intn(3); k > 0; k-- {
			sz := 1 + rng.Intn(12)
			def.Dev = append(def.Dev, ref.DevDef{Num: rng.Byte(), Size: byte(sz), Idx: byte(rng.Intn(3))})
			data.Data = append(data.Data, rng.Bytes(sz))
		}
	}
	return []ref.Record{def, data}
}

// NewPlanGen starts a plan with its file_id.
func NewPlanGen(rng *Rand, o GenOpts) *PlanGen {
	g := &PlanGen{O: o, R: rng}
	hs := o.HeaderSize
	if hs == 0 {
		hs = 14
		if rng.Chance(1, 4) {
			hs = 12
		}
	}
	// profile version of the writing device: mostly the library's own, sometimes older, newer, extreme
	g.P = &ref.Plan{HeaderSize: hs, Proto: 0x10, ProfVer: []uint16{2115, 2115, 2115, 2115, 2115, 2115, 100, 1602, 2140, 2215, 2216, 21158, 65535, 0}[rng.Intn(14)]}
	if rng.Chance(1, 2) {
		g.P.Proto = 0x20
	}
	if rng.Chance(1, 8) {
		// any protocol version with an accepted major number: minor versions above and below
		// the ones the library writes itself
		g.P.Proto = []byte{0x21, 0x2F, 0x15, 0x1F, 0x00, 0x0F, 0x24}[rng.Intn(7)]
	}
	if hs == 14 && rng.Chance(1, 6) {
		g.P.HeaderCRCZero = true
	}
	local := byte(0)
	if o.Locals > 1 {
		local = byte(rng.Intn(o.Locals))
	}
	arch := byte(0)
	if rng.Chance(o.BigEndian, 100) {
		arch = 1
	}
	recs := fileIdRecords(rng, o.FileType, local, arch, true, o.Unknown, o.BigFileId)
	if o.Compressed > 0 && local < 4 && rng.Chance(o.Compressed, 400) {
		// the file_id record itself under a compressed timestamp header (no reference yet)
		recs[1].Compressed = true
		recs[1].TimeOffset = byte(rng.Intn(32))
	}
	if o.UndefinedLocal > 0 && rng.Chance(o.UndefinedLocal, 600) {
		// the very first data record names a slot other than the one just defined (all others
		// are undefined at this point): the stream ends there
		other := byte(rng.Intn(16))
		if other != local {
			recs[1].Local = other
			recs[1].Compressed = false
			if other < 4 && rng.Chance(1, 3) {
				recs[1].Compressed = true
			}
			g.dead = true
		}
	}
	g.P.Records = append(g.P.Records, recs...)
	d := recs[0]
	g.defs[local] = &d
	g.last[local] = nil
	g.known = o.Mesgs
	if g.known == nil {
		g.known = KnownMesgs()
	}
	return g
}

// Define writes a definition for message m on slot local.
func (g *PlanGen) Define(local byte, m uint16, knownMsg bool) {
	p := Profile()
	rng := g.R
	def := ref.Record{IsDef: true, Local: local, Global: m}
	if rng.Chance(g.O.BigEndian, 100) {
		def.Arch = 1
	}
	used := map[byte]bool{}
	if knownMsg {
		fields := p.ByMesg[m]
		max := g.O.MaxFields
		if max == 0 {
			max = 12
		}
		var pick []*ref.PField
		switch {
		case g.O.OnlyField != nil && g.O.OnlyField.Mesg == m:
			pick = []*ref.PField{g.O.OnlyField}
		case g.O.AllFields:
			pick = append(pick, fields...)
		default:
			n := 0
			if len(fields) > 0 {
				n = 1 + rng.Intn(min(max, len(fields)))
			}
			if g.O.ZeroFieldDefs > 0 && rng.Chance(g.O.ZeroFieldDefs, 100) {
				n = 0 // a definition without fields is legal: its records are all-invalid messages
			}
			for _, i := range rng.Perm(len(fields))[:n] {
				pick = append(pick, fields[i])
			}
		}
		if m == 0 {
			// A repeated file_id always restates the same file type: a
			// file_id that changes or drops the type in mid-stream is a
			// corner the properties do not define.
			if tf := p.Field(0, 0); tf != nil {
				found := false
				for _, pf := range pick {
					if pf == tf {
						found = true
					}
				}
				if !found {
					pick = append(pick, tf)
				}
			}
		}
		if g.O.ForceFields != nil {
			for _, num := range g.O.ForceFields(rng, m) {
				if ff := p.Field(m, num); ff != nil {
					found := false
					for _, pf := range pick {
						if pf == ff {
							found = true
						}
					}
					if !found {
						pick = append(pick, ff)
					}
				}
			}
		}
		if g.O.Serial {
			if sf := serialField(m); sf != nil {
				found := false
				for _, pf := range pick {
					if pf == sf {
						found = true
					}
				}
				if !found {
					pick = append(pick, sf)
				}
			}
		}
		// permute
		perm := rng.Perm(len(pick))
		total := 0
		for _, i := range perm {
			pf := pick[i]
			if g.O.ExcludeFields != nil && g.O.ExcludeFields(m, pf.Num) {
				continue
			}
			fd := GenFieldDef(rng, pf, &g.O)
			if g.O.SizeFor != nil {
				if sz, ok := g.O.SizeFor(rng, m, pf.Num); ok {
					fd.Base, fd.Size = ref.BaseTypes[pf.Base].Code, sz
				}
			}
			if g.O.Serial && pf == serialField(m) {
				fd.Base, fd.Size = ref.BaseTypes[pf.Base].Code, byte(ref.BaseTypes[pf.Base].Size)
			}
			if len(def.Fields) >= 255 {
				break
			}
			total += int(fd.Size)
			def.Fields = append(def.Fields, fd)
			used[pf.Num] = true
		}
		_ = total
	}
	if g.O.Monster > 0 && rng.Chance(g.O.Monster, 2000) {
		// a record whose total size sits at a 16-bit boundary (64 KiB +- a little, 128 KiB - a little)
		targets := []int{65535, 65536, 65537, 65536 + rng.Intn(300), 65536 - rng.Intn(300), 2*65536 - 1 - rng.Intn(1100), 65536 + 255, 65536 + 256, 65536 + 257}
		target := targets[rng.Intn(len(targets))]
		cur := 0
		for _, f := range def.Fields {
			cur += int(f.Size)
		}
		def.HasDev = true
		for tries := 0; tries < 3000 && cur < target; tries++ {
			sz := 255
			if target-cur < 255 {
				sz = target - cur
			}
			if len(def.Fields) < 255 && rng.Chance(1, 2) {
				num := rng.Byte()
				if used[num] || num == 253 || knownMsg && p.Field(m, num) != nil {
					continue
				}
				used[num] = true
				def.Fields = append(def.Fields, ref.FieldDef{Num: num, Size: byte(sz), Base: 0x0D})
				cur += sz
			} else if len(def.Dev) < 255 {
				def.Dev = append(def.Dev, ref.DevDef{Num: rng.Byte(), Size: byte(sz), Idx: byte(rng.Intn(4))})
				cur += sz
			} else if len(def.Fields) >= 255 {
				break
			}
		}
	} else if g.O.Monster > 0 && rng.Chance(g.O.Monster, 2000) {
		nf := 100 + rng.Intn(156-len(def.Fields)%100)
		for tries := 0; tries < 2000 && len(def.Fields) < nf && len(def.Fields) < 255; tries++ {
			num := rng.Byte()
			if used[num] || num == 253 || knownMsg && p.Field(m, num) != nil {
				continue
			}
			used[num] = true
			def.Fields = append(def.Fields, ref.FieldDef{Num: num, Size: byte(200 + rng.Intn(56)), Base: 0x0D})
		}
		def.HasDev = true
		for k := 100 + rng.Intn(156); k > 0; k-- {
			def.Dev = append(def.Dev, ref.DevDef{Num: rng.Byte(), Size: byte(200 + rng.Intn(56)), Idx: byte(rng.Intn(4))})
		}
	}
	addUnknown := !knownMsg || (g.O.Unknown > 0 && rng.Chance(g.O.Unknown, 100))
	if addUnknown {
		n := 1 + rng.Intn(3)
		for k := 0; k < n && len(def.Fields) < 255; k++ {
			num := rng.Byte()
			if used[num] || num == 253 {
				continue
			}
			if knownMsg && p.Field(m, num) != nil {
				continue
			}
			used[num] = true
			bt := ref.BaseTypes[rng.Intn(len(ref.BaseTypes))]
			mult := 1 + rng.Intn(4)
			size := bt.Size * mult
			if bt.Code == 0x07 {
				size = rng.Intn(40)
			} else if !knownMsg && rng.Chance(1, 4) {
				// any size >= base size is admitted for unknown items
				size = bt.Size + rng.Intn(9)
			}
			if size > 255 {
				size = 255
			}
			fd := ref.FieldDef{Num: num, Size: byte(size), Base: bt.Code}
			// insert at a random position so neighbours would be disturbed by a mis-sized skip
			pos := rng.Intn(len(def.Fields) + 1)
			def.Fields = append(def.Fields, ref.FieldDef{})
			copy(def.Fields[pos+1:], def.Fields[pos:])
			def.Fields[pos] = fd
		}
	}
	if g.O.Unknown253 > 0 && !used[253] && len(def.Fields) < 255 && (!knownMsg || p.Field(m, 253) == nil) && rng.Chance(g.O.Unknown253, 100) {
		// field number 253 in a message the profile does not know, or in a known message whose
		// profile has no field 253: an unknown field like any other (to be skipped without
		// effect on the messages that follow), although it looks like a timestamp
		used[253] = true
		fd := ref.FieldDef{Num: 253, Size: 4, Base: 0x86}
		pos := rng.Intn(len(def.Fields) + 1)
		def.Fields = append(def.Fields, ref.FieldDef{})
		copy(def.Fields[pos+1:], def.Fields[pos:])
		def.Fields[pos] = fd
	}
	if g.O.Unknown > 0 && rng.Chance(g.O.Unknown/2, 100) {
		def.HasDev = true
		for k := rng.Intn(4); k > 0 && len(def.Dev) < 255; k-- {
			sizes := []int{0, 1, 2, 4, 8, 17, 255}
			def.Dev = append(def.Dev, ref.DevDef{Num: rng.Byte(), Size: byte(sizes[rng.Intn(len(sizes))]), Idx: byte(rng.Intn(3))})
		}
	}
	if g.O.DevDescribe > 0 && len(def.Dev) > 0 && len(def.Dev) <= 8 && rng.Chance(g.O.DevDescribe, 100) {
		// Developer fields announced the way a device does it: a developer_data_id message for
		// the developer index and a field_description per field (index, field number, base type
		// id - any byte, also ones that are no base type), written on this very slot just before
		// the definition that uses them.
		did, fdesc := p.Field(207, 3), p.Field(206, 0)
		if did != nil && fdesc != nil && p.Field(206, 1) != nil && p.Field(206, 2) != nil {
			seen := map[byte]bool{}
			for _, dd := range def.Dev {
				if !seen[dd.Idx] {
					seen[dd.Idx] = true
					g.P.Records = append(g.P.Records,
						ref.Record{IsDef: true, Local: local, Arch: def.Arch, Global: 207, Fields: []ref.FieldDef{{Num: 3, Size: 1, Base: 0x02}}},
						ref.Record{Local: local, Data: [][]byte{{dd.Idx}}})
				}
				bb := knownBaseCodesGen[rng.Intn(len(knownBaseCodesGen))]
				if rng.Chance(3, 10) {
					bb = rng.Byte()
				}
				fdDef := ref.Record{IsDef: true, Local: local, Arch: def.Arch, Global: 206, Fields: []ref.FieldDef{{Num: 0, Size: 1, Base: 0x02}, {Num: 1, Size: 1, Base: 0x02}, {Num: 2, Size: 1, Base: 0x02}}}
				fdData := ref.Record{Local: local, Data: [][]byte{{dd.Idx}, {dd.Num}, {bb}}}
				if knownMsg && rng.Chance(1, 2) && p.Field(206, 14) != nil && p.Field(206, 15) != nil {
					// the description names a "native" field it overrides: one of the unlisted
					// field numbers this very definition carries (if it has one), else any number
					nf := rng.Byte()
					for _, f := range def.Fields {
						if p.Field(m, f.Num) == nil {
							nf = f.Num
							break
						}
					}
					nm := make([]byte, 2)
					ref.Put(nm, uint64(m), 2, def.Arch)
					fdDef.Fields = append(fdDef.Fields, ref.FieldDef{Num: 14, Size: 2, Base: 0x84}, ref.FieldDef{Num: 15, Size: 1, Base: 0x02})
					fdData.Data = append(fdData.Data, nm, []byte{nf})
				}
				g.P.Records = append(g.P.Records, fdDef, fdData)
			}
		}
	}
	if g.O.ReservedBits > 0 && rng.Chance(g.O.ReservedBits, 100) {
		def.HdrBits = 0x10
	}
	g.P.Records = append(g.P.Records, def)
	d := def
	g.defs[local] = &d
	g.last[local] = nil
}

var knownBaseCodesGen = []byte{0x00, 0x01, 0x02, 0x83, 0x84, 0x85, 0x86, 0x07, 0x88, 0x89, 0x0A, 0x8B, 0x8C, 0x0D, 0x8E, 0x8F, 0x90}

// DefineSimilar redefines slot local with a near-copy of its current definition.
func (g *PlanGen) DefineSimilar(local byte) {
	p := Profile()
	rng := g.R
	old := g.defs[local]
	def := ref.Record{IsDef: true, Local: local, Global: old.Global, Arch: old.Arch, Reserved: old.Reserved, HasDev: old.HasDev}
	def.Fields = append([]ref.FieldDef(nil), old.Fields...)
	def.Dev = append([]ref.DevDef(nil), old.Dev...)
	switch rng.Intn(10) {
	case 0, 1: // developer fields added or removed
		if def.HasDev && len(def.Dev) > 0 {
			def.HasDev, def.Dev = false, nil
		} else {
			def.HasDev = true
			def.Dev = nil
			for k := 1 + rng.Intn(3); k > 0; k-- {
				def.Dev = append(def.Dev, ref.DevDef{Num: rng.Byte(), Size: byte(1 + rng.Intn(12)), Idx: byte(rng.Intn(3))})
			}
			// ... the first of them, every other time, with the very bytes (number, size, index =
			// base type) that a one-byte field of this message has as a native field
			if cs := crossable(p, &def); len(cs) > 0 && rng.Chance(1, 2) {
				def.Dev[0] = cs[rng.Intn(len(cs))]
			}
		}
	case 8, 9:
		// move one entry across the boundary between the field definitions and the developer
		// field descriptions, its three bytes unchanged (a developer index is a base type code
		// on the other side): same bytes in the same order, another definition
		nativeOK := func(d ref.DevDef) bool {
			for _, f := range def.Fields {
				if f.Num == d.Num {
					return false
				}
			}
			if pf := p.Field(def.Global, d.Num); pf != nil && p.Known[def.Global] {
				return ref.BaseTypes[pf.Base].Code == d.Idx && !pf.Array && d.Size == byte(ref.BaseTypes[pf.Base].Size) && d.Idx <= 2
			}
			return d.Idx <= 2 && d.Size >= 1 && d.Num != 253 && d.Num != 254 && d.Num != 250
		}
		switch {
		case def.HasDev && len(def.Dev) > 0 && len(def.Fields) < 255 && nativeOK(def.Dev[0]) && rng.Chance(2, 3):
			d0 := def.Dev[0]
			def.Dev = append([]ref.DevDef(nil), def.Dev[1:]...)
			def.Fields = append(def.Fields, ref.FieldDef{Num: d0.Num, Size: d0.Size, Base: d0.Idx})
		case len(def.Fields) > 1 && len(def.Dev) < 255 && def.Fields[len(def.Fields)-1].Num != 253:
			f := def.Fields[len(def.Fields)-1]
			def.Fields = def.Fields[:len(def.Fields)-1]
			def.HasDev = true
			def.Dev = append([]ref.DevDef{{Num: f.Num, Size: f.Size, Idx: f.Base}}, def.Dev...)
		default:
			def.Arch ^= 1
		}
	case 2:
		def.Arch ^= 1
	case 3:
		def.Reserved = rng.Byte()
	case 4:
		if len(def.Fields) > 1 {
			def.Fields = def.Fields[:len(def.Fields)-1]
		}
	case 5: // developer field sizes changed only
		if def.HasDev && len(def.Dev) > 0 {
			def.Dev[rng.Intn(len(def.Dev))].Size = byte(rng.Intn(20))
		} else {
			def.Arch ^= 1
		}
	case 6: // resize an array / string / unknown field
		for _, i := range rng.Perm(len(def.Fields)) {
			f := &def.Fields[i]
			pf := p.Field(def.Global, f.Num)
			bt, ok := ref.BaseByCode(f.Base)
			if !ok {
				continue
			}
			if pf == nil || pf.Array || bt.Code == 0x07 {
				ns := int(f.Size) + bt.Size*(1+rng.Intn(3))
				if ns <= 255 {
					f.Size = byte(ns)
					break
				}
			}
		}
	default:
		if len(def.Fields) > 1 {
			i, j := rng.Intn(len(def.Fields)), rng.Intn(len(def.Fields))
			def.Fields[i], def.Fields[j] = def.Fields[j], def.Fields[i]
		}
	}
	g.P.Records = append(g.P.Records, def)
	d := def
	g.defs[local] = &d
	g.last[local] = nil
}

// crossable lists, as developer field descriptions, the one-byte fields (enum, sint8, uint8) of
// def's message that def does not define natively: number, size 1, index = base type code.
func crossable(p *ref.Profile, def *ref.Record) (out []ref.DevDef) {
	if !p.Known[def.Global] {
		return nil
	}
	for _, pf := range p.ByMesg[def.Global] {
		bt := ref.BaseTypes[pf.Base]
		if bt.Code > 2 || pf.Array || pf.Kind != ref.KNative {
			continue
		}
		have := false
		for _, f := range def.Fields {
			if f.Num == pf.Num {
				have = true
			}
		}
		if !have {
			out = append(out, ref.DevDef{Num: pf.Num, Size: 1, Idx: bt.Code})
		}
	}
	return out
}

// Data writes a data record on slot local (which must be defined).
// sync feeds the records appended since the last call into the mirror interpreter.
func (g *PlanGen) sync() {
	if g.it == nil {
		g.it = ref.NewInterp(Profile())
		zones := []int64{0, 3600, -18000, 19800, 2700, -3600 * 11}
		g.zone = zones[g.R.Intn(len(zones))]
	}
	for g.fed < len(g.P.Records) {
		g.it.Feed(&g.P.Records[g.fed])
		g.fed++
	}
}

// timeValue returns a device-like value for a time field, if the time model applies.
func (g *PlanGen) timeValue(pf *ref.PField, compressed bool, offset byte) (uint64, bool) {
	if g.O.TimeModel == 0 || !g.R.Chance(g.O.TimeModel, 100) {
		return 0, false
	}
	g.sync()
	rng := g.R
	refv, has := g.it.Ref, g.it.HasRef
	if compressed && has {
		refv += (uint32(offset&0x1F) - refv&31) & 31 // what the header of this very record yields
	}
	if pf.Kind == ref.KTimeLocal {
		if !has {
			return 0, false
		}
		v := int64(refv) + g.zone
		if v <= 0 || v >= 0xFFFF0000 {
			return 0, false
		}
		return uint64(v), true
	}
	if pf.Num != 253 {
		return 0, false
	}
	switch {
	case rng.Chance(8, 100): // seconds since power-on
		return uint64(1 + rng.Intn(1<<20)), true
	case (!has || refv < 0x10000000) && rng.Chance(1, 4):
		// a reference a few seconds below the system-time marker 0x10000000: compressed headers
		// that follow carry it across the marker, from "seconds since power-on" to a date
		return uint64(0x10000000 - 1 - rng.Intn(40)), true
	case !has || refv < 0x10000000:
		return uint64(0x30000000 + rng.Intn(0x10000000)), true
	default:
		d := []uint32{0, 0, 0, 1, 2, 5, 31, 32, 33, 64, uint32(rng.Intn(300))}[rng.Intn(11)]
		if uint64(refv)+uint64(d) >= 0xFFFF0000 {
			return 0, false
		}
		return uint64(refv + d), true
	}
}

func (g *PlanGen) Data(local byte) {
	p := Profile()
	rng := g.R
	def := g.defs[local]
	if g.O.RepeatPrev > 0 && g.last[local] != nil && def.Global != 0 && rng.Chance(g.O.RepeatPrev, 100) {
		r := ref.Record{Local: local}
		for _, d := range g.last[local].Data {
			r.Data = append(r.Data, append([]byte{}, d...))
		}
		for i, fd := range def.Fields {
			if fd.Num == 253 && fd.Size == 4 && p.Known[def.Global] && rng.Chance(3, 4) {
				if v := ref.Get(r.Data[i], 4, def.Arch); v != 0xFFFFFFFF && v < 0xFFFF0000-32 && v >= 0x10000000 {
					ref.Put(r.Data[i], v+1+uint64(rng.Intn(10)), 4, def.Arch)
				}
			}
		}
		g.P.Records = append(g.P.Records, r)
		rc := r
		g.last[local] = &rc
		return
	}
	r := ref.Record{Local: local}
	if local < 4 && g.O.Compressed > 0 && rng.Chance(g.O.Compressed, 100) {
		r.Compressed = true
		r.TimeOffset = byte(rng.Intn(32))
	}
	known := p.Known[def.Global]
	var sf *ref.PField
	if g.O.Serial && known {
		sf = serialField(def.Global)
	}
	for _, fd := range def.Fields {
		var pf *ref.PField
		if known {
			pf = p.Field(def.Global, fd.Num)
		}
		if pf != nil && pf == sf && !(def.Global == 0 && fd.Num == 0) {
			g.serial++
			bt := ref.BaseTypes[pf.Base]
			b := make([]byte, fd.Size)
			v := uint64(g.serial)
			if bt.Size == 1 {
				v = uint64(g.serial%250) + 1
			}
			ref.Put(b, v, bt.Size, def.Arch)
			r.Data = append(r.Data, b)
			continue
		}
		if def.Global == 0 && fd.Num == 0 && known {
			r.Data = append(r.Data, []byte{g.O.FileType})
			continue
		}
		if pf != nil && pf.Kind != ref.KNative && fd.Size == 4 {
			if v, ok := g.timeValue(pf, r.Compressed, r.TimeOffset); ok && (pf.Kind == ref.KTimeUTC || pf.Kind == ref.KTimeLocal) {
				b := make([]byte, 4)
				ref.Put(b, v, 4, def.Arch)
				r.Data = append(r.Data, b)
				continue
			}
		}
		r.Data = append(r.Data, GenFieldData(rng, pf, fd, def.Arch, &g.O))
	}
	for _, dd := range def.Dev {
		r.Data = append(r.Data, rng.Bytes(int(dd.Size)))
	}
	if g.O.PostData != nil {
		g.O.PostData(rng, def, r.Data)
	}
	if g.O.ReservedBits > 0 && !r.Compressed && rng.Chance(g.O.ReservedBits, 100) {
		r.HdrBits = []byte{0x10, 0x20, 0x30}[rng.Intn(3)]
	}
	g.P.Records = append(g.P.Records, r)
	rc := r
	g.last[local] = &rc
}

// PickMesg draws a message number: mostly from the configured known set,
// sometimes (if Unknown > 0) an unknown number.
func (g *PlanGen) PickMesg() (uint16, bool) {
	if g.O.Unknown > 0 && g.R.Chance(g.O.Unknown/3, 100) {
		u := UnknownMesgNums()
		return u[g.R.Intn(len(u))], false
	}
	return g.known[g.R.Intn(len(g.known))], true
}

// Fill appends definitions and data records according to the options.
func (g *PlanGen) Fill() *ref.Plan {
	rng := g.R
	locals := g.O.Locals
	if locals < 1 {
		locals = 1
	}
	n := g.O.Records
	if n == 0 {
		n = 20
	}
	emitted := 0
	if g.dead {
		return g.P
	}
	for emitted < n {
		l := byte(rng.Intn(locals))
		if g.O.UndefinedLocal > 0 && rng.Chance(g.O.UndefinedLocal, 1000) {
			// data record on an undefined slot, if one exists
			var free []byte
			for s := 0; s < 16; s++ {
				if g.defs[s] == nil {
					free = append(free, byte(s))
				}
			}
			if len(free) > 0 {
				s := free[rng.Intn(len(free))]
				r := ref.Record{Local: s}
				if s < 4 && rng.Chance(1, 3) {
					r.Compressed = true
				}
				if g.defs[3] == nil && rng.Chance(1, 4) {
					// what erased flash looks like: a run of 0xFF bytes up to the end of the data.
					// 0xFF is the header of a compressed-timestamp record of local type 3
					// (offset 31), which has no definition here
					r = ref.Record{Local: 3, Compressed: true, TimeOffset: 31, Data: [][]byte{bytes.Repeat([]byte{0xFF}, 2+rng.Intn(14))}}
				}
				g.P.Records = append(g.P.Records, r)
				return g.P
			}
		}
		if g.defs[l] == nil || rng.Chance(g.O.Redefine, 100) {
			if g.defs[l] != nil && g.defs[l].Global != 0 && g.O.RedefSimilar > 0 && rng.Chance(g.O.RedefSimilar, 100) {
				g.DefineSimilar(l)
				continue
			}
			m, known := g.PickMesg()
			g.Define(l, m, known)
			continue
		}
		g.Data(l)
		emitted++
	}
	return g.P
}

// PadPlanToDataSize appends records of unknown messages until the plan's
// record area is exactly target bytes long. It reports false if the plan is
// already longer than target-40.
func PadPlanToDataSize(p *ref.Plan, rng *Rand, target int) bool {
	cur := len(p.DataBytes())
	// three filler definitions on slots 13-15: records of 201, 3 and 2 bytes
	defs := []ref.Record{
		{IsDef: true, Local: 13, Global: 0xFF01, Fields: []ref.FieldDef{{Num: 1, Size: 200, Base: 0x0D}}},
		{IsDef: true, Local: 14, Global: 0xFF02, Fields: []ref.FieldDef{{Num: 1, Size: 2, Base: 0x84}}},
		{IsDef: true, Local: 15, Global: 0xFF03, Fields: []ref.FieldDef{{Num: 1, Size: 1, Base: 0x02}}},
	}
	need := 0
	for i := range defs {
		need += len(ref.RecordBytes(&defs[i]))
	}
	if cur+need+4 > target {
		return false
	}
	p.Records = append(p.Records, defs...)
	rem := target - cur - need
	for rem >= 201+4 {
		p.Records = append(p.Records, ref.Record{Local: 13, Data: [][]byte{rng.Bytes(200)}})
		rem -= 201
	}
	for rem > 0 {
		switch {
		case rem == 2 || rem == 4 || rem%3 != 0 && rem >= 2:
			p.Records = append(p.Records, ref.Record{Local: 15, Data: [][]byte{rng.Bytes(1)}})
			rem -= 2
		case rem >= 3:
			p.Records = append(p.Records, ref.Record{Local: 14, Data: [][]byte{rng.Bytes(2)}})
			rem -= 3
		default: // rem == 1 cannot happen: 2s and 3s reach every value >= 2
			return false
		}
	}
	return len(p.DataBytes()) == target
}
