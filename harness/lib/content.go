package lib

import (
	"fmt"
	"math"
	"reflect"
	"strconv"
	"strings"

	"github.com/tormoder/fit"

	"verifharness/ref"
)

func f32bits(f float64) uint32 { return math.Float32bits(float32(f)) }
func f64bits(f float64) uint64 { return math.Float64bits(f) }

// Slot is the observed or expected content of one container member.
type Slot struct {
	Name   string
	Global uint16
	Single bool
	Msgs   [][]ref.Val // Single: zero or one element
}

// Content is everything a user can observe of a decoded File.
type Content struct {
	HeaderSize      byte
	Proto           byte
	ProfVer         uint16
	DataSize        uint32
	HeaderCRC       uint16
	CRC             uint16
	FileType        byte
	FileId          []ref.Val
	Slots           []Slot // FileCreator, TimestampCorrelation, then the container members
	HasUF, HasUM    bool
	UnknownFields   [][3]int // mesg, field, count (as returned)
	UnknownMessages [][2]int
	// AccessorOK[i] reports whether accessor i (order of FileTypes) returned
	// a nil error; AccessorNonNil[i] whether it returned a non-nil container.
	AccessorOK     []bool
	AccessorNonNil []bool
}

// accessors in the order of FileTypes.
func accessors(f *fit.File) []func() (interface{}, error) {
	return []func() (interface{}, error){
		func() (interface{}, error) { return f.Device() },
		func() (interface{}, error) { return f.Settings() },
		func() (interface{}, error) { return f.Sport() },
		func() (interface{}, error) { return f.Activity() },
		func() (interface{}, error) { return f.Workout() },
		func() (interface{}, error) { return f.Course() },
		func() (interface{}, error) { return f.Schedules() },
		func() (interface{}, error) { return f.Weight() },
		func() (interface{}, error) { return f.Totals() },
		func() (interface{}, error) { return f.Goals() },
		func() (interface{}, error) { return f.BloodPressure() },
		func() (interface{}, error) { return f.MonitoringA() },
		func() (interface{}, error) { return f.ActivitySummary() },
		func() (interface{}, error) { return f.MonitoringDaily() },
		func() (interface{}, error) { return f.MonitoringB() },
		func() (interface{}, error) { return f.Segment() },
		func() (interface{}, error) { return f.SegmentList() },
	}
}

// Container returns the container of f through the accessor for file type ft
// (nil if that accessor fails or returns nil).
func Container(f *fit.File, ft byte) interface{} {
	acc := accessors(f)
	for i, t := range FileTypes {
		if t.Type == ft {
			c, err := acc[i]()
			if err != nil || reflect.ValueOf(c).IsNil() {
				return nil
			}
			return c
		}
	}
	return nil
}

// FileContent extracts the observable content of f (nil-safe).
func FileContent(f *fit.File) *Content {
	if f == nil {
		return nil
	}
	c := &Content{
		HeaderSize: f.Header.Size, Proto: f.Header.ProtocolVersion, ProfVer: f.Header.ProfileVersion,
		DataSize: f.Header.DataSize, HeaderCRC: f.Header.CRC, CRC: f.CRC,
		FileType: byte(f.FileId.Type),
		FileId:   MsgVals(reflect.ValueOf(f.FileId)),
	}
	fc := Slot{Name: "FileCreator", Global: 49, Single: true}
	if f.FileCreator != nil {
		fc.Msgs = append(fc.Msgs, MsgVals(reflect.ValueOf(*f.FileCreator)))
	}
	tc := Slot{Name: "TimestampCorrelation", Global: 162, Single: true}
	if f.TimestampCorrelation != nil {
		tc.Msgs = append(tc.Msgs, MsgVals(reflect.ValueOf(*f.TimestampCorrelation)))
	}
	c.Slots = append(c.Slots, fc, tc)
	if f.UnknownFields != nil {
		c.HasUF = true
		for _, u := range f.UnknownFields {
			c.UnknownFields = append(c.UnknownFields, [3]int{int(u.MesgNum), int(u.FieldNum), u.Count})
		}
	}
	if f.UnknownMessages != nil {
		c.HasUM = true
		for _, u := range f.UnknownMessages {
			c.UnknownMessages = append(c.UnknownMessages, [2]int{int(u.MesgNum), u.Count})
		}
	}
	p := Profile()
	acc := accessors(f)
	for i, t := range FileTypes {
		cont, err := acc[i]()
		c.AccessorOK = append(c.AccessorOK, err == nil)
		nonNil := err == nil && !reflect.ValueOf(cont).IsNil()
		c.AccessorNonNil = append(c.AccessorNonNil, nonNil)
		if !nonNil || t.Type != c.FileType {
			continue
		}
		cv := reflect.ValueOf(cont).Elem()
		specs := p.Files[t.Type]
		for j := 0; j < cv.NumField(); j++ {
			s := Slot{Name: specs[j].Name, Global: specs[j].Global, Single: specs[j].Single}
			fv := cv.Field(j)
			switch fv.Kind() {
			case reflect.Ptr:
				if !fv.IsNil() {
					s.Msgs = append(s.Msgs, MsgVals(fv.Elem()))
				}
			case reflect.Slice:
				for k := 0; k < fv.Len(); k++ {
					e := fv.Index(k)
					if e.Kind() == reflect.Ptr {
						if e.IsNil() {
							s.Msgs = append(s.Msgs, nil)
							continue
						}
						e = e.Elem()
					}
					s.Msgs = append(s.Msgs, MsgVals(e))
				}
			}
			c.Slots = append(c.Slots, s)
		}
	}
	return c
}

// Diff is one difference between expected and observed content.
type Diff struct {
	Where  string // "header", "fileid", slot name, ...
	Slot   string
	Global uint16
	Index  int // message index within the slot
	Sindex int // struct field index (−1: structural difference)
	Exp    string
	Got    string
	ExpV   ref.Val
	GotV   ref.Val
}

func (d Diff) String() string {
	if d.Sindex < 0 {
		return fmt.Sprintf("%s %s[%d]: expected %s, got %s", d.Where, d.Slot, d.Index, d.Exp, d.Got)
	}
	return fmt.Sprintf("%s %s[%d] mesg %d field#%d(%s): expected %s, got %s", d.Where, d.Slot, d.Index, d.Global, d.Sindex, FieldName(d.Global, d.Sindex), d.Exp, d.Got)
}

// FieldName returns the Go struct field name for (message, struct index).
func FieldName(g uint16, sindex int) string {
	t := fit.VerifMesgType(g)
	if t == nil || sindex < 0 || sindex >= t.NumField() {
		return "?"
	}
	return t.Field(sindex).Name
}

// CompareMsgs compares two canonical messages field by field. skip may be nil.
func CompareMsgs(where, slot string, g uint16, idx int, exp, got []ref.Val, skip func(sindex int) bool) []Diff {
	var out []Diff
	if len(exp) != len(got) {
		return []Diff{{Where: where, Slot: slot, Global: g, Index: idx, Sindex: -1, Exp: fmt.Sprintf("%d fields", len(exp)), Got: fmt.Sprintf("%d fields", len(got))}}
	}
	for i := range exp {
		if skip != nil && skip(i) {
			continue
		}
		if strconv.IntSize == 32 && exp[i].K == 't' && (exp[i].Off > math.MaxInt32 || exp[i].Off < math.MinInt32) {
			// A zone offset of more than 68 years cannot be expressed by time.FixedZone where int is
			// 32 bits wide; what a decoder should do with such a local timestamp there is not defined.
			continue
		}
		if !exp[i].Equal(got[i]) {
			out = append(out, Diff{Where: where, Slot: slot, Global: g, Index: idx, Sindex: i, Exp: exp[i].String(), Got: got[i].String(), ExpV: exp[i], GotV: got[i]})
		}
	}
	return out
}

// DiffsString joins up to n diffs.
func DiffsString(ds []Diff, n int) string {
	var sb strings.Builder
	for i, d := range ds {
		if i == n {
			fmt.Fprintf(&sb, "... and %d more", len(ds)-n)
			break
		}
		sb.WriteString(d.String())
		sb.WriteString("; ")
	}
	return sb.String()
}

// ScribbleFile overwrites everything a user can reach in a File that a decode returned: every
// element of every numeric slice, every numeric scalar of every message. The File belongs to the
// caller; whatever the library keeps for later calls must not be reachable through it.
func ScribbleFile(f *fit.File) (touched int) {
	if f == nil {
		return 0
	}
	var walk func(v reflect.Value, depth int)
	walk = func(v reflect.Value, depth int) {
		if depth > 6 {
			return
		}
		switch v.Kind() {
		case reflect.Ptr, reflect.Interface:
			if !v.IsNil() {
				walk(v.Elem(), depth+1)
			}
		case reflect.Struct:
			if v.Type().PkgPath() == "time" {
				return
			}
			for i := 0; i < v.NumField(); i++ {
				if v.Type().Field(i).PkgPath != "" {
					continue // unexported
				}
				walk(v.Field(i), depth+1)
			}
		case reflect.Slice, reflect.Array:
			for i := 0; i < v.Len(); i++ {
				walk(v.Index(i), depth+1)
			}
		case reflect.Uint8, reflect.Uint16, reflect.Uint32, reflect.Uint64:
			if v.CanSet() {
				v.SetUint(0x5A5A5A5A5A5A5A5A & (1<<uint(v.Type().Bits()) - 1))
				touched++
			}
		case reflect.Int8, reflect.Int16, reflect.Int32, reflect.Int64:
			if v.CanSet() {
				v.SetInt(0x25)
				touched++
			}
		case reflect.Float32, reflect.Float64:
			if v.CanSet() {
				v.SetFloat(-12345.5)
				touched++
			}
		}
	}
	// the container first: the accessors look at FileId.Type
	for _, a := range accessors(f) {
		if c, err := a(); err == nil && c != nil && !reflect.ValueOf(c).IsNil() {
			walk(reflect.ValueOf(c), 0)
		}
	}
	walk(reflect.ValueOf(&f.FileId), 0)
	walk(reflect.ValueOf(f.FileCreator), 0)
	walk(reflect.ValueOf(f.TimestampCorrelation), 0)
	return touched
}
