package lib

import (
	"encoding/binary"
	"encoding/hex"
	"encoding/json"
	"fmt"
	"hash/fnv"
	"os"
	"os/exec"
	"path/filepath"
	"runtime"
	"runtime/debug"
	"sort"
	"strconv"
	"strings"
	"sync"
	"sync/atomic"
	"syscall"
	"time"
)

// VerifDir is the root of the verification tree (where evidence/, replay/,
// work/ and known_findings.json live).
func VerifDir() string {
	if d := os.Getenv("VERIF_DIR"); d != "" {
		return d
	}
	return "/verif"
}

// Family is a PRNG- or index-determined list of cases.
type Family struct {
	Name string
	// N returns the number of cases for the tier.
	N func(tier string) uint64
	// Run generates and checks case idx, reporting through c.
	Run func(c *Ctx, idx uint64)
	// Batch > 1: the worker announces progress once per Batch cases.
	Batch uint64
}

// Check is the machinery deciding one property.
type Check struct {
	ID       string
	Level    string // exploration | fault_enumeration
	Rule     string // how cases are generated, what is non-trivial
	Assume   []string
	Families []Family
	// Main, if set, runs in the parent instead of sharded families.
	Main func(c *Ctx)
	// Finish, if set, runs in the parent after the merge and may add
	// verdicts (e.g. minimum coverage) and extra coverage keys.
	Finish func(c *Ctx, cov map[string]interface{})
	// MinNontrivial: fewer distinct non-trivial cases make the run inconclusive.
	MinNontrivial int64
	Shards        int // 0: number of CPUs
	// Families386 names the families that are run a second time in a binary built with GOARCH=386
	// (32-bit int and pointers), when ./run built one and the host can execute it.
	Families386 []string
	// WorkerProcs: GOMAXPROCS of each worker process (default 1).
	WorkerProcs int
	Exhaustive  func(tier string) bool
}

// Violation is a refuted property instance.
type Violation struct {
	Msg    string `json:"msg"`
	Replay string `json:"replay"`
}

// Result is what one worker (or the parent) observed.
type Result struct {
	Evaluations  int64                  `json:"evaluations"`
	Nontrivial   int64                  `json:"nontrivial"` // counted without digests (exhaustive enumerations)
	Counters     map[string]int64       `json:"counters"`
	Violations   []Violation            `json:"violations"`
	NViolations  int64                  `json:"n_violations"`
	Known        map[string]int64       `json:"known"`
	KnownDetail  map[string]string      `json:"known_detail"`
	Inconclusive []string               `json:"inconclusive"`
	Samples      []interface{}          `json:"samples"`
	Extra        map[string]interface{} `json:"extra"`
	digests      map[uint64]struct{}
}

// Ctx is handed to the case runners.
type Ctx struct {
	Check  *Check
	Tier   string
	Shard  int
	NShard int
	Res    *Result
	mu     sync.Mutex

	curFamily string
	curIdx    uint64
	progress  atomic.Uint64 // bumped per case and per library call (Eval)
	replaying bool
	// Input of the case in flight (set by the runner before calling into the library).
	inflight atomic.Value
}

func newResult() *Result {
	return &Result{Counters: map[string]int64{}, Known: map[string]int64{}, KnownDetail: map[string]string{}, Extra: map[string]interface{}{}, digests: map[uint64]struct{}{}}
}

// Eval counts one execution of the code under test.
func (c *Ctx) Eval() {
	c.progress.Add(1)
	c.mu.Lock()
	c.Res.Evaluations++
	c.mu.Unlock()
}

// Tick tells the watchdog that the case is making progress (for cases that count their
// executions in one EvalN at the end).
func (c *Ctx) Tick() { c.progress.Add(1) }

// EvalN counts n executions.
func (c *Ctx) EvalN(n int64) {
	c.progress.Add(1)
	c.mu.Lock()
	c.Res.Evaluations += n
	c.mu.Unlock()
}

// Count bumps a coverage counter.
func (c *Ctx) Count(key string, n int64) { c.mu.Lock(); c.Res.Counters[key] += n; c.mu.Unlock() }

// Nontrivial records a non-trivial case by a digest of its content.
func (c *Ctx) Nontrivial(parts ...[]byte) {
	h := fnv.New64a()
	for _, p := range parts {
		h.Write(p)
		h.Write([]byte{0xFE})
	}
	c.mu.Lock()
	c.Res.digests[h.Sum64()] = struct{}{}
	c.mu.Unlock()
}

// NontrivialN counts n distinct non-trivial cases of a complete enumeration
// (distinct by construction).
func (c *Ctx) NontrivialN(n int64) { c.mu.Lock(); c.Res.Nontrivial += n; c.mu.Unlock() }

// Sample keeps up to max samples per key.
func (c *Ctx) Sample(key string, max int, v interface{}) {
	c.mu.Lock()
	defer c.mu.Unlock()
	k := "samples:" + key
	if c.Res.Counters[k] >= int64(max) {
		return
	}
	c.Res.Counters[k]++
	c.Res.Samples = append(c.Res.Samples, map[string]interface{}{"kind": key, "case": v})
}

// SetInflight records the input about to be handed to the library, so that a
// watchdog or crash handler can save it.
func (c *Ctx) SetInflight(b []byte) { c.inflight.Store(b) }

// OutDir is where evidence/, replay/ and work/ are written: VERIF_OUT, or the
// verification tree itself. (Mutant validation points it at a scratch directory so
// that the committed evidence is not overwritten by runs against mutated trees.)
func OutDir() string {
	if d := os.Getenv("VERIF_OUT"); d != "" {
		return d
	}
	return VerifDir()
}

// ReplayRecord is the content of a replay file.
type ReplayRecord struct {
	Property string `json:"property"`
	Family   string `json:"family"`
	Index    uint64 `json:"index"`
	Seed     int64  `json:"seed"`
	Tier     string `json:"tier"`
	Msg      string `json:"msg"`
	InputHex string `json:"input_hex,omitempty"`
	Note     string `json:"note,omitempty"`
}

func (c *Ctx) writeReplay(msg string, input []byte) string {
	dir := filepath.Join(OutDir(), "replay")
	os.MkdirAll(dir, 0o755)
	name := fmt.Sprintf("%s-%s-%d-s%d.json", c.Check.ID, sanitize(c.curFamily), c.curIdx, Seed())
	path := filepath.Join(dir, name)
	rr := ReplayRecord{Property: c.Check.ID, Family: c.curFamily, Index: c.curIdx, Seed: Seed(), Tier: c.Tier, Msg: msg}
	if len(input) > 0 && len(input) <= 1<<16 {
		rr.InputHex = hex.EncodeToString(input)
	}
	b, _ := json.MarshalIndent(rr, "", " ")
	os.WriteFile(path, b, 0o644)
	return path
}

// maskDigits replaces every run of digits by '#' and truncates.
func maskDigits(s string, n int) string {
	var b strings.Builder
	prev := false
	for _, r := range s {
		if r >= '0' && r <= '9' {
			if !prev {
				b.WriteByte('#')
			}
			prev = true
			continue
		}
		prev = false
		if r == '\n' {
			r = ' '
		}
		b.WriteRune(r)
		if b.Len() >= n {
			break
		}
	}
	return b.String()
}

func sanitize(s string) string {
	return strings.Map(func(r rune) rune {
		if r >= 'a' && r <= 'z' || r >= 'A' && r <= 'Z' || r >= '0' && r <= '9' || r == '-' || r == '_' {
			return r
		}
		return '_'
	}, s)
}

// Violation records a refutation with its witness.
func (c *Ctx) Violation(input []byte, format string, args ...interface{}) {
	msg := fmt.Sprintf(format, args...)
	if len(msg) > 2000 {
		msg = msg[:2000] + "..."
	}
	c.mu.Lock()
	defer c.mu.Unlock()
	c.Res.NViolations++
	c.Res.Counters["violation_class:"+maskDigits(msg, 110)]++
	if len(c.Res.Violations) >= 25 {
		return
	}
	if c.curFamily == "parent" {
		c.curIdx = uint64(len(c.Res.Violations))
	}
	path := c.writeReplay(msg, input)
	c.Res.Violations = append(c.Res.Violations, Violation{Msg: msg, Replay: path})
	if c.replaying {
		fmt.Printf("replay: violated: %s\n", msg)
	}
}

// Known records an observation of a listed known finding. If the finding is
// not listed as open for this property it is a violation.
func (c *Ctx) Known(id string, input []byte, format string, args ...interface{}) {
	if !KnownOpen(c.Check.ID, id) {
		c.Violation(input, "[unlisted finding %s] "+format, append([]interface{}{id}, args...)...)
		return
	}
	c.mu.Lock()
	defer c.mu.Unlock()
	c.Res.Known[id]++
	if _, ok := c.Res.KnownDetail[id]; !ok {
		c.Res.KnownDetail[id] = fmt.Sprintf(format, args...)
	}
}

// Inconclusive records an undecided case.
func (c *Ctx) Inconclusive(format string, args ...interface{}) {
	c.mu.Lock()
	defer c.mu.Unlock()
	if len(c.Res.Inconclusive) < 50 {
		c.Res.Inconclusive = append(c.Res.Inconclusive, fmt.Sprintf(format, args...))
	}
	c.Res.Counters["inconclusive"]++
}

// ---------------------------------------------------------------------------
// Known findings file.

type KnownFinding struct {
	ID        string   `json:"id"`
	Property  []string `json:"property"`
	Status    string   `json:"status"` // open | fixed
	Signature string   `json:"signature"`
	What      string   `json:"what"`
	Commit    string   `json:"commit,omitempty"`
}

var (
	kfOnce sync.Once
	kfList []KnownFinding
)

func loadKnown() {
	kfOnce.Do(func() {
		b, err := os.ReadFile(filepath.Join(VerifDir(), "known_findings.json"))
		if err != nil {
			return
		}
		var f struct {
			Findings []KnownFinding `json:"findings"`
		}
		if json.Unmarshal(b, &f) == nil {
			kfList = f.Findings
		}
	})
}

// KnownOpen reports whether finding id is listed as open for property prop.
func KnownOpen(prop, id string) bool {
	loadKnown()
	for _, k := range kfList {
		if k.ID == id && k.Status == "open" {
			for _, p := range k.Property {
				if p == prop {
					return true
				}
			}
		}
	}
	return false
}

func knownWhat(id string) string {
	loadKnown()
	for _, k := range kfList {
		if k.ID == id {
			return k.What
		}
	}
	return ""
}

// ---------------------------------------------------------------------------
// Driver.

var registry = map[string]*Check{}

// Register adds a check.
func Register(ch *Check) { registry[ch.ID] = ch }

// Checks returns the registered ids, sorted.
func Checks() []string {
	var ids []string
	for id := range registry {
		ids = append(ids, id)
	}
	sort.Strings(ids)
	return ids
}

func workDir(id string) string { return filepath.Join(OutDir(), "work", id) }

// RunWorker executes the shard's share of every family and writes the result.
func RunWorker(id, tier string, shard, nshard int, out string, only ...string) int {
	ch := registry[id]
	if ch == nil {
		fmt.Fprintln(os.Stderr, "unknown check", id)
		return 2
	}
	debug.SetGCPercent(800)
	c := &Ctx{Check: ch, Tier: tier, Shard: shard, NShard: nshard, Res: newResult()}
	// Hostile configuration: the library must not depend on the process's local time zone. Odd
	// shards run with time.Local five and a half hours east of UTC, even shards with UTC.
	if shard%2 == 1 {
		time.Local = time.FixedZone("VERIF+0530", 19800)
	} else {
		time.Local = time.UTC
	}
	progressFile := out + ".progress"
	stop := make(chan struct{})
	go c.watchdog(progressFile, stop)
	for _, fam := range ch.Families {
		if len(only) > 0 && only[0] != "" && !strings.Contains(","+only[0]+",", ","+fam.Name+",") {
			continue
		}
		n := fam.N(tier)
		c.curFamily = fam.Name
		for idx := uint64(shard); idx < n; idx += uint64(nshard) {
			c.curIdx = idx
			c.progress.Add(1)
			runCase(c, &fam, idx)
		}
	}
	close(stop)
	return writeResult(c.Res, out)
}

func runCase(c *Ctx, fam *Family, idx uint64) {
	defer func() {
		if r := recover(); r != nil {
			// A panic escaping a case runner is a harness bug or an
			// unguarded library panic; either way it must not be lost.
			var in []byte
			if v := c.inflight.Load(); v != nil {
				in = v.([]byte)
			}
			c.Violation(in, "panic escaped the case runner (family %s, index %d): %v\n%s", fam.Name, idx, r, trimStack(debug.Stack()))
		}
	}()
	fam.Run(c, idx)
}

func trimStack(b []byte) string {
	s := string(b)
	if len(s) > 1500 {
		s = s[:1500]
	}
	return s
}

// watchdog: generous wall-clock bound per case. Its firing is not a verdict;
// the parent re-runs the case in isolation.
func (c *Ctx) watchdog(progressFile string, stop chan struct{}) {
	last := c.progress.Load()
	lastChange := time.Now()
	cpuAtChange := processCPU()
	limit := 120 * time.Second
	if s := os.Getenv("VERIF_WATCHDOG_S"); s != "" {
		if v, err := strconv.Atoi(s); err == nil {
			limit = time.Duration(v) * time.Second
		}
	}
	t := time.NewTicker(500 * time.Millisecond)
	defer t.Stop()
	for {
		select {
		case <-stop:
			return
		case <-t.C:
		}
		cur := c.progress.Load()
		if cur != last {
			last = cur
			lastChange = time.Now()
			cpuAtChange = processCPU()
			continue
		}
		var ms runtime.MemStats
		runtime.ReadMemStats(&ms)
		// A case counts as stuck when it made no progress for the limit AND the process was
		// actually running for at least half of that time (a starved or suspended process is not
		// a hanging case), or, for cases that block without using the CPU, after five limits.
		idle := time.Since(lastChange)
		stuck := idle > limit && processCPU()-cpuAtChange > limit/2 || idle > 5*limit
		fat := ms.HeapAlloc > 6<<30
		if stuck || fat {
			var in []byte
			if v := c.inflight.Load(); v != nil {
				in = v.([]byte)
			}
			why := "no progress"
			if fat {
				why = "heap above 6 GiB"
			}
			rr := ReplayRecord{Property: c.Check.ID, Family: c.curFamily, Index: c.curIdx, Seed: Seed(), Tier: c.Tier, Msg: "watchdog: " + why, InputHex: hex.EncodeToString(in)}
			b, _ := json.Marshal(rr)
			os.WriteFile(progressFile+".stuck", b, 0o644)
			os.Exit(3)
		}
	}
}

// processCPU returns the user+system CPU time this process has used.
func processCPU() time.Duration {
	var ru syscall.Rusage
	if syscall.Getrusage(syscall.RUSAGE_SELF, &ru) != nil {
		return 0
	}
	return time.Duration(ru.Utime.Nano() + ru.Stime.Nano())
}

func writeResult(r *Result, out string) int {
	b, err := json.Marshal(r)
	if err != nil {
		fmt.Fprintln(os.Stderr, "marshal result:", err)
		return 2
	}
	if err := os.WriteFile(out, b, 0o644); err != nil {
		fmt.Fprintln(os.Stderr, err)
		return 2
	}
	// digests
	dg := make([]byte, 0, 8*len(r.digests))
	var tmp [8]byte
	for d := range r.digests {
		binary.LittleEndian.PutUint64(tmp[:], d)
		dg = append(dg, tmp[:]...)
	}
	if err := os.WriteFile(out+".digests", dg, 0o644); err != nil {
		fmt.Fprintln(os.Stderr, err)
		return 2
	}
	return 0
}

// RunReplay re-executes the case recorded in a replay file.
func RunReplay(id, path string) int {
	ch := registry[id]
	if ch == nil {
		fmt.Fprintln(os.Stderr, "unknown check", id)
		return 2
	}
	b, err := os.ReadFile(path)
	if err != nil {
		fmt.Fprintln(os.Stderr, err)
		return 2
	}
	var rr ReplayRecord
	if err := json.Unmarshal(b, &rr); err != nil {
		fmt.Fprintln(os.Stderr, err)
		return 2
	}
	os.Setenv("VERIF_SEED", strconv.FormatInt(rr.Seed, 10))
	tier := rr.Tier
	if tier == "" {
		tier = "quick"
	}
	c := &Ctx{Check: ch, Tier: tier, NShard: 1, Res: newResult(), replaying: true}
	for _, fam := range ch.Families {
		if fam.Name != rr.Family {
			continue
		}
		c.curFamily = fam.Name
		c.curIdx = rr.Index
		// the same progress-based watchdog as in the workers: exit status 3 means that no library
		// call completed within the limit although the process was running
		stop := make(chan struct{})
		go c.watchdog(path+".iso", stop)
		runCase(c, &fam, rr.Index)
		close(stop)
		if c.Res.NViolations > 0 {
			fmt.Printf("VIOLATION property=%s replay=%s\n", id, path)
			return 1
		}
		for k, n := range c.Res.Known {
			fmt.Printf("KNOWN-FINDING: property=%s %s (%s) x%d\n", id, k, c.Res.KnownDetail[k], n)
		}
		fmt.Println("replay: case held")
		return 0
	}
	fmt.Fprintf(os.Stderr, "replay: family %q is run by the parent of %s; re-run the check with VERIF_SEED=%d\n", rr.Family, id, rr.Seed)
	return 2
}

// RunCheck is the parent: shards the families over child processes, merges,
// writes evidence, prints verdict lines and returns the exit code.
func RunCheck(id, tier string) int {
	ch := registry[id]
	if ch == nil {
		fmt.Fprintln(os.Stderr, "unknown check", id)
		return 2
	}
	start := time.Now()
	wd := workDir(id)
	os.RemoveAll(wd)
	os.MkdirAll(wd, 0o755)
	defer os.RemoveAll(wd)
	os.MkdirAll(filepath.Join(OutDir(), "evidence"), 0o755)

	total := newResult()
	pc := &Ctx{Check: ch, Tier: tier, NShard: 1, Res: total, curFamily: "parent"}
	var crashed []string

	if len(ch.Families) > 0 {
		nshard := ch.Shards
		if nshard <= 0 {
			nshard = runtime.NumCPU()
		}
		var maxN uint64
		for _, f := range ch.Families {
			if n := f.N(tier); n > maxN {
				maxN = n
			}
		}
		if uint64(nshard) > maxN && maxN > 0 {
			nshard = int(maxN)
		}
		self, _ := os.Executable()
		var wg sync.WaitGroup
		type wres struct {
			shard int
			err   error
			out   string
			log   string
		}
		// Optional second pass of some families in a 32-bit binary.
		bin386 := os.Getenv("VERIF_VCHECK386")
		n386 := 0
		if bin386 != "" && len(ch.Families386) > 0 {
			if err := exec.Command(bin386, "list").Run(); err == nil {
				n386 = nshard
			} else {
				total.Extra["goarch_386_pass"] = "host cannot execute the 386 binary: " + err.Error()
			}
		}
		results := make([]wres, nshard+n386)
		for s := 0; s < nshard+n386; s++ {
			wg.Add(1)
			go func(s int) {
				defer wg.Done()
				out := filepath.Join(wd, fmt.Sprintf("shard-%d.json", s))
				logp := filepath.Join(wd, fmt.Sprintf("shard-%d.log", s))
				lf, _ := os.Create(logp)
				cmd := exec.Command(self, "worker", id, "--tier", tier, "--shard", strconv.Itoa(s), "--nshard", strconv.Itoa(nshard), "--out", out)
				if s >= nshard {
					cmd = exec.Command(bin386, "worker", id, "--tier", tier, "--shard", strconv.Itoa(s-nshard), "--nshard", strconv.Itoa(nshard), "--out", out, "--families", strings.Join(ch.Families386, ","), "--label", "GOARCH=386")
				}
				cmd.Stdout = lf
				cmd.Stderr = lf
				// Most workers run single-threaded (the workloads are sequential); some get 2, 3 or
				// 5 Ps, so that code which sizes its work by GOMAXPROCS does not always see 1.
				procs := []int{1, 1, 3, 1, 2, 1, 1, 5}[s%8]
				if ch.WorkerProcs > 0 {
					procs = ch.WorkerProcs
				}
				cmd.Env = append(os.Environ(), "GOMAXPROCS="+strconv.Itoa(procs))
				err := cmd.Run()
				lf.Close()
				results[s] = wres{s, err, out, logp}
			}(s)
		}
		wg.Wait()
		// Watchdog exits are re-run in isolation to decide; the re-runs go in parallel (each in
		// its own process with its own replay file), so that a tree with a genuine hang does not
		// cost shards x 120 s.
		verdicts := make([]string, len(results))
		var iwg sync.WaitGroup
		for i, r := range results {
			if sb, e := os.ReadFile(r.out + ".progress.stuck"); e == nil && r.err != nil {
				iwg.Add(1)
				go func(i int, sb []byte) {
					defer iwg.Done()
					verdicts[i] = pc.isolate(self, sb, i)
				}(i, sb)
			}
		}
		iwg.Wait()
		for ri, r := range results {
			b, rerr := os.ReadFile(r.out)
			if r.err != nil || rerr != nil {
				// Crash, fatal runtime error or watchdog exit.
				if sb, e := os.ReadFile(r.out + ".progress.stuck"); e == nil {
					verdict := verdicts[ri]
					switch verdict {
					case "hang":
						p := filepath.Join(OutDir(), "replay", fmt.Sprintf("%s-hang-shard%d-s%d.json", id, r.shard, Seed()))
						os.MkdirAll(filepath.Dir(p), 0o755)
						os.WriteFile(p, sb, 0o644)
						total.NViolations++
						total.Violations = append(total.Violations, Violation{Msg: "case does not terminate (watchdog fired twice, also in isolation): " + string(sb[:min(len(sb), 300)]), Replay: p})
					default:
						var rr ReplayRecord
						json.Unmarshal(sb, &rr)
						total.Inconclusive = append(total.Inconclusive, fmt.Sprintf("shard %d: watchdog fired once (%s; family %s, case %d), case finished in isolation (%s); remaining cases of the shard not run", r.shard, rr.Msg, rr.Family, rr.Index, verdict))
						total.Counters["inconclusive"]++
					}
					continue
				}
				lg, _ := os.ReadFile(r.log)
				tail := string(lg)
				if len(tail) > 3000 {
					tail = tail[len(tail)-3000:]
				}
				crashed = append(crashed, fmt.Sprintf("shard %d: %v\n%s", r.shard, r.err, tail))
				continue
			}
			var wr Result
			if err := json.Unmarshal(b, &wr); err != nil {
				crashed = append(crashed, fmt.Sprintf("shard %d: bad result: %v", r.shard, err))
				continue
			}
			if r.shard >= nshard {
				total.Counters["cases_also_run_under_GOARCH_386"] += wr.Evaluations
				for i := range wr.Violations {
					wr.Violations[i].Msg = "[GOARCH=386, 32-bit int] " + wr.Violations[i].Msg
				}
			}
			mergeResult(total, &wr)
			if dg, err := os.ReadFile(r.out + ".digests"); err == nil {
				for i := 0; i+8 <= len(dg); i += 8 {
					total.digests[binary.LittleEndian.Uint64(dg[i:])] = struct{}{}
				}
			}
		}
	}
	for _, cr := range crashed {
		p := filepath.Join(OutDir(), "replay", fmt.Sprintf("%s-crash-s%d.txt", id, Seed()))
		os.MkdirAll(filepath.Dir(p), 0o755)
		os.WriteFile(p, []byte(cr), 0o644)
		total.NViolations++
		total.Violations = append(total.Violations, Violation{Msg: "worker process died (fatal runtime error or crash): " + firstLine(cr), Replay: p})
	}
	if ch.Main != nil {
		func() {
			defer func() {
				if r := recover(); r != nil {
					pc.Violation(nil, "panic in parent-side check: %v\n%s", r, trimStack(debug.Stack()))
				}
			}()
			ch.Main(pc)
		}()
	}

	cov := map[string]interface{}{}
	if ch.Finish != nil {
		ch.Finish(pc, cov)
	}
	distinct := int64(len(total.digests)) + total.Nontrivial
	inconclusiveExit := false
	if ch.MinNontrivial > 0 && distinct < ch.MinNontrivial && total.NViolations == 0 {
		total.Inconclusive = append(total.Inconclusive, fmt.Sprintf("only %d distinct non-trivial cases observed, minimum is %d: the observation points were not reached", distinct, ch.MinNontrivial))
		inconclusiveExit = true
	}

	// Evidence.
	cov["evaluations"] = total.Evaluations
	cov["distinct_nontrivial"] = distinct
	cov["rule"] = ch.Rule
	samples := total.Samples
	if len(samples) > 12 {
		samples = samples[:12]
	}
	if len(samples) == 0 {
		samples = []interface{}{"(no sample recorded)"}
	}
	cov["samples"] = samples
	counters := map[string]int64{}
	for k, v := range total.Counters {
		if !strings.HasPrefix(k, "samples:") {
			counters[k] = v
		}
	}
	cov["counters"] = counters
	if ch.Exhaustive != nil && ch.Exhaustive(tier) {
		cov["exhaustive"] = true
	}
	for k, v := range total.Extra {
		cov[k] = v
	}
	kf := map[string]interface{}{}
	for k, n := range total.Known {
		kf[k] = map[string]interface{}{"observations": n, "first": total.KnownDetail[k]}
	}
	cov["known_findings_observed"] = kf
	cov["inconclusive"] = total.Inconclusive
	var vmsgs []string
	for _, v := range total.Violations {
		vmsgs = append(vmsgs, v.Msg+" [replay "+v.Replay+"]")
	}
	cov["violation_messages"] = vmsgs
	ev := map[string]interface{}{
		"property_id": id,
		"tier":        tier,
		"seed":        Seed(),
		"level":       ch.Level,
		"coverage":    cov,
		"assumptions": ch.Assume,
		"wall_s":      time.Since(start).Seconds(),
		"violations":  total.NViolations,
	}
	eb, _ := json.MarshalIndent(ev, "", " ")
	evPath := filepath.Join(OutDir(), "evidence", id+".json")
	if err := os.WriteFile(evPath, eb, 0o644); err != nil {
		fmt.Fprintln(os.Stderr, "writing evidence:", err)
		return 2
	}

	// Verdict lines.
	var kids []string
	for k := range total.Known {
		kids = append(kids, k)
	}
	sort.Strings(kids)
	for _, k := range kids {
		fmt.Printf("KNOWN-FINDING: property=%s %s: %s [%d observations; first: %s]\n", id, k, knownWhat(k), total.Known[k], total.KnownDetail[k])
	}
	for _, s := range total.Inconclusive {
		fmt.Printf("INCONCLUSIVE property=%s %s\n", id, s)
	}
	fmt.Printf("%s %s: %d evaluations, %d distinct non-trivial, %d violations, %.1fs\n", id, tier, total.Evaluations, distinct, total.NViolations, time.Since(start).Seconds())
	if total.NViolations > 0 {
		var classes []string
		for k := range total.Counters {
			if strings.HasPrefix(k, "violation_class:") {
				classes = append(classes, k)
			}
		}
		sort.Slice(classes, func(i, j int) bool { return total.Counters[classes[i]] > total.Counters[classes[j]] })
		for i, k := range classes {
			if i == 15 {
				break
			}
			fmt.Printf("  class x%d: %s\n", total.Counters[k], strings.TrimPrefix(k, "violation_class:"))
		}
		for _, v := range total.Violations {
			fmt.Printf("  %s\n", v.Msg)
			fmt.Printf("VIOLATION property=%s replay=%s\n", id, v.Replay)
		}
		return 1
	}
	if inconclusiveExit {
		return 2
	}
	return 0
}

func firstLine(s string) string {
	if i := strings.IndexByte(s, '\n'); i >= 0 {
		return s[:i]
	}
	return s
}

func mergeResult(t, w *Result) {
	t.Evaluations += w.Evaluations
	t.Nontrivial += w.Nontrivial
	for k, v := range w.Counters {
		t.Counters[k] += v
	}
	t.NViolations += w.NViolations
	for _, v := range w.Violations {
		if len(t.Violations) < 25 {
			t.Violations = append(t.Violations, v)
		}
	}
	for k, v := range w.Known {
		t.Known[k] += v
		if _, ok := t.KnownDetail[k]; !ok {
			t.KnownDetail[k] = w.KnownDetail[k]
		}
	}
	t.Inconclusive = append(t.Inconclusive, w.Inconclusive...)
	for _, s := range w.Samples {
		t.Samples = append(t.Samples, s)
	}
	for k, v := range w.Extra {
		t.Extra[k] = v
	}
}

// isolate re-runs a watchdog-flagged case alone in a fresh process with a
// second generous bound.
func (c *Ctx) isolate(self string, stuck []byte, k int) string {
	p := filepath.Join(workDir(c.Check.ID), fmt.Sprintf("isolate-%d.json", k))
	os.WriteFile(p, stuck, 0o644)
	cmd := exec.Command(self, c.Check.ID, "--replay", p)
	done := make(chan error, 1)
	if err := cmd.Start(); err != nil {
		return "could not start: " + err.Error()
	}
	go func() { done <- cmd.Wait() }()
	select {
	case err := <-done:
		if ee, ok := err.(*exec.ExitError); ok && ee.ExitCode() == 3 {
			return "hang" // the isolated run's own watchdog: no library call completed within the limit
		}
		if err != nil {
			return "finished: " + err.Error()
		}
		return "finished"
	case <-time.After(45 * time.Minute):
		cmd.Process.Kill()
		return "not finished after 45 minutes of wall clock (inconclusive)"
	}
}

func min(a, b int) int {
	if a < b {
		return a
	}
	return b
}
