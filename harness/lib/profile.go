package lib

import (
	"fmt"
	"reflect"
	"sort"
	"sync"
	"time"

	"github.com/tormoder/fit"

	"verifharness/ref"
)

var (
	profOnce sync.Once
	prof     *ref.Profile
)

// FileTypes lists the 17 file types with a container, by their FIT file type
// number (FIT SDK "file" enum), together with a constructor of the container
// type used for reflection.
var FileTypes = []struct {
	Type byte
	Name string
	Zero interface{}
}{
	{1, "Device", fit.DeviceFile{}},
	{2, "Settings", fit.SettingsFile{}},
	{3, "Sport", fit.SportFile{}},
	{4, "Activity", fit.ActivityFile{}},
	{5, "Workout", fit.WorkoutFile{}},
	{6, "Course", fit.CourseFile{}},
	{7, "Schedules", fit.SchedulesFile{}},
	{9, "Weight", fit.WeightFile{}},
	{10, "Totals", fit.TotalsFile{}},
	{11, "Goals", fit.GoalsFile{}},
	{14, "BloodPressure", fit.BloodPressureFile{}},
	{15, "MonitoringA", fit.MonitoringAFile{}},
	{20, "ActivitySummary", fit.ActivitySummaryFile{}},
	{28, "MonitoringDaily", fit.MonitoringDailyFile{}},
	{32, "MonitoringB", fit.MonitoringBFile{}},
	{34, "Segment", fit.SegmentFile{}},
	{35, "SegmentList", fit.SegmentListFile{}},
}

// Profile returns the model's view of the compiled-in profile, built from the
// read-only hook.
func Profile() *ref.Profile {
	profOnce.Do(func() {
		p := &ref.Profile{
			Fields:    map[uint32]*ref.PField{},
			Known:     map[uint16]bool{},
			NumFields: map[uint16]int{},
			Names:     map[uint16]string{},
			Invalid:   map[uint16][]ref.Val{},
			Files:     map[byte][]ref.SlotSpec{},
			FileNames: map[byte]string{},
			ByMesg:    map[uint16][]*ref.PField{},
		}
		for _, m := range fit.VerifKnownMesgNums() {
			p.Known[m] = true
		}
		for _, e := range fit.VerifProfile() {
			kind, arr, base := ref.UnpackType(e.TypeBits)
			pf := &ref.PField{Mesg: e.Mesg, Num: e.Num, Sindex: e.Sindex, Kind: kind, Array: arr, Base: base, Length: e.Length, Raw: e.TypeBits}
			// Keyed by the slot the decoder looks it up at.
			p.Fields[ref.Key(e.Mesg, e.Slot)] = pf
			p.ByMesg[e.Mesg] = append(p.ByMesg[e.Mesg], pf)
		}
		for m := range p.ByMesg {
			l := p.ByMesg[m]
			sort.Slice(l, func(i, j int) bool { return l[i].Num < l[j].Num })
		}
		typeToNum := map[reflect.Type]uint16{}
		for m := range p.Known {
			t := fit.VerifMesgType(m)
			if t == nil {
				continue
			}
			typeToNum[t] = m
			p.NumFields[m] = t.NumField()
			p.Names[m] = t.Name()
			nv := fit.VerifNewMesg(m)
			if nv.IsValid() && nv.Kind() == reflect.Ptr && !nv.IsNil() {
				p.Invalid[m] = MsgVals(nv.Elem())
			}
		}
		for _, ft := range FileTypes {
			t := reflect.TypeOf(ft.Zero)
			p.FileNames[ft.Type] = t.Name()
			for i := 0; i < t.NumField(); i++ {
				f := t.Field(i)
				ss := ref.SlotSpec{Name: f.Name}
				et := f.Type
				switch et.Kind() {
				case reflect.Ptr:
					ss.Single = true
					et = et.Elem()
				case reflect.Slice:
					et = et.Elem()
					if et.Kind() == reflect.Ptr {
						et = et.Elem()
					}
				}
				g, ok := typeToNum[et]
				if !ok {
					g = 0xFFFF
				}
				ss.Global = g
				p.Files[ft.Type] = append(p.Files[ft.Type], ss)
			}
		}
		prof = p
	})
	return prof
}

var (
	timeType = reflect.TypeOf(time.Time{})
	latType  = reflect.TypeOf(fit.Latitude{})
	lngType  = reflect.TypeOf(fit.Longitude{})
)

// ValOf converts one struct field value into canonical form, using only what
// a user of the package can observe.
func ValOf(v reflect.Value) ref.Val {
	switch v.Type() {
	case timeType:
		t := v.Interface().(time.Time)
		name, off := t.Zone()
		return ref.Val{K: 't', N: uint64(t.Unix()), Ns: int32(t.Nanosecond()), Off: int64(off), S: name}
	case latType:
		l := v.Interface().(fit.Latitude)
		return ref.Val{K: 'l', N: uint64(int64(l.Semicircles())), Inv: l.Invalid()}
	case lngType:
		l := v.Interface().(fit.Longitude)
		return ref.Val{K: 'g', N: uint64(int64(l.Semicircles())), Inv: l.Invalid()}
	}
	switch v.Kind() {
	case reflect.Uint8, reflect.Uint16, reflect.Uint32, reflect.Uint64, reflect.Uint:
		return ref.U(v.Uint())
	case reflect.Int8, reflect.Int16, reflect.Int32, reflect.Int64, reflect.Int:
		return ref.I(v.Int())
	case reflect.Float32:
		return ref.Val{K: 'f', N: uint64(f32bits(v.Float()))}
	case reflect.Float64:
		return ref.Val{K: 'd', N: f64bits(v.Float())}
	case reflect.String:
		return ref.Str(v.String())
	case reflect.Slice:
		if v.IsNil() {
			return ref.Val{K: 'a', Nil: true}
		}
		out := ref.Val{K: 'a', A: make([]ref.Val, v.Len())}
		for i := 0; i < v.Len(); i++ {
			out.A[i] = ValOf(v.Index(i))
		}
		return out
	}
	return ref.Val{K: '?', S: fmt.Sprint(v.Interface())}
}

// MsgVals converts a message struct into its canonical field list.
func MsgVals(v reflect.Value) []ref.Val {
	out := make([]ref.Val, v.NumField())
	for i := range out {
		out[i] = ValOf(v.Field(i))
	}
	return out
}
