package lib

import (
	"bytes"
	"encoding/binary"
	"errors"
	"fmt"
	"io"
	"runtime"
	"runtime/debug"

	"github.com/tormoder/fit"
)

// Outcome of a guarded call.
type Outcome struct {
	Panicked bool
	Panic    string
	Stack    string
	Hang     bool // logical hang: the code kept calling Read after the input ended
}

type hangSentinel struct{}

// Guard runs f, turning a panic into an observed event.
func Guard(f func()) (o Outcome) {
	defer func() {
		if r := recover(); r != nil {
			if _, ok := r.(hangSentinel); ok {
				o.Hang = true
				return
			}
			o.Panicked = true
			o.Panic = fmt.Sprint(r)
			o.Stack = trimStack(debug.Stack())
		}
	}()
	f()
	return
}

// Chunker decides how many bytes the next Read call may deliver.
type Chunker struct {
	Kind        string // "whole", "fixed", "rand", "greedy", "one"
	Size        int
	R           *Rand
	Yield       bool // call runtime.Gosched before every Read
	Zero        bool // occasionally return (0, nil), never twice in a row
	EOFWithData bool // deliver the final chunk together with io.EOF
	ErrWithData bool // deliver the final chunk before a fault together with the fault's error
	// ZeroRun: every 40th productive read is preceded by that many (0, nil) reads in a row (a
	// source that is polled while it has nothing to deliver).
	ZeroRun int
}

// ErrInjected is the non-EOF error the fault injector returns.
var ErrInjected = errors.New("verif: injected read fault")

// Reader is the instrumented io.Reader handed to the library. It serves
// Data[:Limit], counts what it delivered and can inject a fault.
type Reader struct {
	Data  []byte
	Limit int  // bytes available before EOF / fault (<= len(Data))
	Fault bool // at Limit return ErrInjected instead of io.EOF
	// FaultErr, if set, is returned instead of ErrInjected.
	FaultErr error
	Ch       Chunker

	Pos                  int // bytes delivered so far
	Reads                int
	PostEOF              int // Read calls after the end was signalled
	MaxAsk               int // largest len(p) seen
	lastZero             bool
	zeroLeft, productive int
}

// NewReader serves all of data with the given chunker.
func NewReader(data []byte, ch Chunker) *Reader {
	return &Reader{Data: data, Limit: len(data), Ch: ch}
}

func (r *Reader) Read(p []byte) (int, error) {
	if r.Ch.Yield {
		runtime.Gosched()
	}
	r.Reads++
	if len(p) > r.MaxAsk {
		r.MaxAsk = len(p)
	}
	if len(p) == 0 {
		return 0, nil
	}
	if r.Pos >= r.Limit {
		r.PostEOF++
		if r.PostEOF > 10000 {
			panic(hangSentinel{})
		}
		if r.Fault {
			if r.FaultErr != nil {
				return 0, r.FaultErr
			}
			return 0, ErrInjected
		}
		return 0, io.EOF
	}
	if r.Ch.ZeroRun > 0 {
		if r.zeroLeft > 0 {
			r.zeroLeft--
			return 0, nil
		}
		r.productive++
		if r.productive%40 == 3 {
			r.zeroLeft = r.Ch.ZeroRun
			r.productive++
			return 0, nil
		}
	}
	if r.Ch.Zero && !r.lastZero && r.Ch.R != nil && r.Ch.R.Chance(1, 6) {
		r.lastZero = true
		return 0, nil
	}
	r.lastZero = false
	n := len(p)
	switch r.Ch.Kind {
	case "one":
		n = 1
	case "fixed":
		if r.Ch.Size < n {
			n = r.Ch.Size
		}
	case "rand":
		m := 1 + r.Ch.R.Intn(r.Ch.Size)
		if m < n {
			n = m
		}
	case "greedy", "whole", "":
	}
	if n > r.Limit-r.Pos {
		n = r.Limit - r.Pos
	}
	copy(p, r.Data[r.Pos:r.Pos+n])
	r.Pos += n
	if r.Ch.EOFWithData && r.Pos == r.Limit && !r.Fault {
		r.PostEOF = 0
		return n, io.EOF
	}
	if r.Ch.ErrWithData && r.Pos == r.Limit && r.Fault {
		if r.FaultErr != nil {
			return n, r.FaultErr
		}
		return n, ErrInjected
	}
	return n, nil
}

// Chunkers returns the standard set used by the reader-boundary checks.
func Chunkers(rng *Rand) []Chunker {
	cs := []Chunker{
		{Kind: "whole"},
		{Kind: "one"},
		{Kind: "fixed", Size: 2}, {Kind: "fixed", Size: 3}, {Kind: "fixed", Size: 7}, {Kind: "fixed", Size: 13},
		{Kind: "fixed", Size: 4095}, {Kind: "fixed", Size: 4096}, {Kind: "fixed", Size: 4097}, {Kind: "fixed", Size: 5000},
		{Kind: "rand", Size: 9, R: rng}, {Kind: "rand", Size: 700, R: rng},
		{Kind: "greedy", EOFWithData: true},
		{Kind: "rand", Size: 50, R: rng, Zero: true, Yield: true, ZeroRun: 150},
	}
	return cs
}

func (c Chunker) String() string {
	s := c.Kind
	if c.Kind == "fixed" || c.Kind == "rand" {
		s += fmt.Sprint(c.Size)
	}
	if c.Zero {
		s += "+zero"
	}
	if c.Yield {
		s += "+yield"
	}
	if c.EOFWithData {
		s += "+eofdata"
	}
	if c.ErrWithData {
		s += "+errdata"
	}
	if c.ZeroRun > 0 {
		s += fmt.Sprintf("+zerorun%d", c.ZeroRun)
	}
	return s
}

// Entry points, by name.
var EntryPoints = []string{"Decode", "DecodeChained", "CheckIntegrity", "CheckIntegrityHeader", "DecodeHeader", "DecodeHeaderAndFileID"}

// CallResult is what an entry point returned.
type CallResult struct {
	Err    error
	File   *fit.File
	Files  []*fit.File
	Header fit.Header
	FileId fit.FileIdMsg
}

// Call invokes entry point ep on r.
func Call(ep string, r io.Reader, opts ...fit.DecodeOption) (res CallResult) {
	switch ep {
	case "Decode":
		res.File, res.Err = fit.Decode(r, opts...)
	case "DecodeChained":
		res.Files, res.Err = fit.DecodeChained(r, opts...)
	case "CheckIntegrity":
		res.Err = fit.CheckIntegrity(r, false)
	case "CheckIntegrityHeader":
		res.Err = fit.CheckIntegrity(r, true)
	case "DecodeHeader":
		res.Header, res.Err = fit.DecodeHeader(r)
	case "DecodeHeaderAndFileID":
		res.Header, res.FileId, res.Err = fit.DecodeHeaderAndFileID(r)
	default:
		panic("unknown entry point " + ep)
	}
	return
}

// GuardedDecode decodes b (whole-buffer reader) under Guard.
func GuardedDecode(b []byte, opts ...fit.DecodeOption) (f *fit.File, err error, o Outcome) {
	o = Guard(func() { f, err = fit.Decode(bytes.NewReader(b), opts...) })
	return
}

// GuardedEncode encodes f under Guard.
func GuardedEncode(f *fit.File, arch binary.ByteOrder) (out []byte, err error, o Outcome) {
	var buf bytes.Buffer
	o = Guard(func() { err = fit.Encode(&buf, f, arch) })
	return buf.Bytes(), err, o
}

// ErrText returns the error text or "<nil>".
func ErrText(err error) string {
	if err == nil {
		return "<nil>"
	}
	return err.Error()
}

// FancyReader serves a byte stream like Reader but also offers every optional interface a
// decoder might type-assert for a fast path (io.ByteScanner, io.WriterTo, io.Seeker, io.ReaderAt,
// Len), all consistent with one stream position, while its Read keeps returning short reads.
type FancyReader struct {
	data []byte
	pos  int
	rng  *Rand
}

func NewFancyReader(data []byte, rng *Rand) *FancyReader { return &FancyReader{data: data, rng: rng} }

func (f *FancyReader) Read(p []byte) (int, error) {
	if len(p) == 0 {
		return 0, nil
	}
	if f.pos >= len(f.data) {
		return 0, io.EOF
	}
	n := 1 + f.rng.Intn(len(p))
	if n > len(f.data)-f.pos {
		n = len(f.data) - f.pos
	}
	copy(p, f.data[f.pos:f.pos+n])
	f.pos += n
	return n, nil
}

func (f *FancyReader) ReadByte() (byte, error) {
	if f.pos >= len(f.data) {
		return 0, io.EOF
	}
	f.pos++
	return f.data[f.pos-1], nil
}

func (f *FancyReader) UnreadByte() error {
	if f.pos == 0 {
		return errors.New("verif: UnreadByte at start")
	}
	f.pos--
	return nil
}

func (f *FancyReader) Len() int { return len(f.data) - f.pos }

func (f *FancyReader) Seek(off int64, whence int) (int64, error) {
	var np int64
	switch whence {
	case io.SeekStart:
		np = off
	case io.SeekCurrent:
		np = int64(f.pos) + off
	case io.SeekEnd:
		np = int64(len(f.data)) + off
	}
	if np < 0 {
		return 0, errors.New("verif: negative seek")
	}
	if np > int64(len(f.data)) {
		np = int64(len(f.data))
	}
	f.pos = int(np)
	return np, nil
}

func (f *FancyReader) ReadAt(p []byte, off int64) (int, error) {
	if off >= int64(len(f.data)) {
		return 0, io.EOF
	}
	n := copy(p, f.data[off:])
	if n < len(p) {
		return n, io.EOF
	}
	return n, nil
}

func (f *FancyReader) WriteTo(w io.Writer) (int64, error) {
	n, err := w.Write(f.data[f.pos:])
	f.pos += n
	return int64(n), err
}

// Pos returns the stream position.
func (f *FancyReader) Pos() int { return f.pos }
