package lib

import (
	"github.com/tormoder/fit"
)

// This file predicts the *defective* behaviour recorded as known findings F5
// (component accumulators live for the whole process) and F6 (the 12-bit
// distance slice loses its high nibble), so that a deviation from the
// reference rule can be told apart from any other wrong value: observed ==
// reference -> fine; observed == predictor -> KNOWN-FINDING; else VIOLATION.
//
// The predictor needs the process-lifetime state of the library's distance
// accumulator. It is shadowed here: every decode a single-threaded worker
// makes must be reported through TrackFile, in order.

// RecPred is the prediction for one record message of the Records slot.
type RecPred struct {
	Expands bool // compressed_speed_distance present, 3 bytes, not all 0xFF
	Raw     [3]byte
	Ref     uint32 // reference rule: accumulated since the start of this file, full 12 bits
	P6      uint32 // per-file state, 8-bit shift (F6 only)
	P56     uint32 // process-lifetime state, 8-bit shift (F5+F6): what the listed defects produce
}

var distShadow struct {
	acc, last uint32
	// Unknown: a decode was not tracked or panicked; the next observed value resynchronises.
	Unknown bool
}

// ShadowUnknown marks the shadow as out of sync (after a panic or an
// untracked decode).
func ShadowUnknown() { distShadow.Unknown = true }

// ShadowIsUnknown reports whether the shadow is out of sync.
func ShadowIsUnknown() bool { return distShadow.Unknown }

// ShadowResync sets the shadow's accumulated value to an observed one.
func ShadowResync(observed uint32, lastRaw uint32) {
	distShadow.acc = observed
	distShadow.last = lastRaw
	distShadow.Unknown = false
}

func recordsOf(f *fit.File) []*fit.RecordMsg {
	if f == nil {
		return nil
	}
	if a, err := f.Activity(); err == nil && a != nil {
		return a.Records
	}
	if c, err := f.Course(); err == nil && c != nil {
		return c.Records
	}
	return nil
}

// TrackFile advances the shadow over the record messages of a file that the
// library has just decoded (also a partial file returned with an error) and
// returns the predictions for its records, in slot order.
func TrackFile(f *fit.File) []RecPred {
	recs := recordsOf(f)
	out := make([]RecPred, len(recs))
	var ref, p6 struct{ acc, last uint32 }
	for i, r := range recs {
		if r == nil {
			continue
		}
		csd := r.CompressedSpeedDistance
		if len(csd) != 3 || csd[0] == 0xFF && csd[1] == 0xFF && csd[2] == 0xFF {
			continue
		}
		b1, b2 := uint32(csd[1]), uint32(csd[2])
		full := b1>>4 | b2<<4
		lossy := b1>>4 | uint32(uint8(b2<<4))
		ref.acc += (full - ref.last) & 0xFFF
		ref.last = full
		p6.acc += (lossy - p6.last) & 0xFFF
		p6.last = lossy
		distShadow.acc += (lossy - distShadow.last) & 0xFFF
		distShadow.last = lossy
		out[i] = RecPred{Expands: true, Raw: [3]byte{csd[0], csd[1], csd[2]}, Ref: ref.acc, P6: p6.acc, P56: distShadow.acc}
	}
	return out
}

// ClassifyDistance decides what an observed record.distance is, given the
// prediction: "ref" (the reference rule), "known" (the listed defects, with
// which of F5/F6 make it differ from the reference), or "other".
func ClassifyDistance(observed uint32, p RecPred) (class string, f5, f6 bool) {
	if !p.Expands {
		return "other", false, false
	}
	if observed == p.Ref && p.Ref == p.P56 {
		return "ref", false, false
	}
	if observed == p.P56 {
		return "known", p.P56 != p.P6, p.P6 != p.Ref
	}
	if observed == p.Ref {
		return "ref", false, false
	}
	return "other", false, false
}

// BlankAccumulatedDistance removes record.distance of records whose
// compressed_speed_distance expands from a content: that value depends on the
// process-lifetime accumulator (known finding F5, decided in C18) and cannot be
// compared between two decodes of the same input.
func BlankAccumulatedDistance(ct *Content) {
	if ct == nil {
		return
	}
	prof := Profile()
	dist, csd := prof.Field(20, 5), prof.Field(20, 8)
	if dist == nil || csd == nil {
		return
	}
	for si := range ct.Slots {
		s := &ct.Slots[si]
		if s.Global != 20 {
			continue
		}
		for j, m := range s.Msgs {
			if v := m[csd.Sindex]; v.K == 'a' && len(v.A) == 3 {
				s.Msgs[j][dist.Sindex].N = 0
			}
		}
	}
}
