package lib

import (
	"sort"
	"sync"
	"time"
	_ "time/tzdata" // the zone database travels with the harness binary
)

// TZZones are real-world zones from the zone database (with daylight saving rules of several
// kinds, half-hour offsets, southern hemisphere); empty if the database cannot be loaded.
var tzOnce sync.Once
var tzZones []*time.Location
var tzTransitions map[*time.Location][]int64

func loadZones() {
	tzOnce.Do(func() {
		tzTransitions = map[*time.Location][]int64{}
		for _, n := range []string{"Europe/Berlin", "America/New_York", "Australia/Sydney", "Asia/Kolkata", "America/St_Johns", "Pacific/Chatham", "Africa/Casablanca"} {
			if z, err := time.LoadLocation(n); err == nil {
				tzZones = append(tzZones, z)
				tzTransitions[z] = transitionsOf(z)
			}
		}
	})
}

// TZZones returns the loaded zones.
func TZZones() []*time.Location { loadZones(); return tzZones }

// TZTransitions returns the Unix times (1990..2100) at which z changes its offset.
func TZTransitions(z *time.Location) []int64 { loadZones(); return tzTransitions[z] }

func transitionsOf(z *time.Location) []int64 {
	var out []int64
	start := time.Date(1990, 1, 1, 0, 0, 0, 0, time.UTC).Unix()
	end := time.Date(2100, 1, 1, 0, 0, 0, 0, time.UTC).Unix()
	off := func(u int64) int { _, o := time.Unix(u, 0).In(z).Zone(); return o }
	const day = 86400
	for u := start; u < end; u += day {
		if off(u) == off(u+day) {
			continue
		}
		lo, hi := u, u+day // offset differs between lo and hi: find the first second with the new offset
		a := off(lo)
		for hi-lo > 1 {
			mid := (lo + hi) / 2
			if off(mid) == a {
				lo = mid
			} else {
				hi = mid
			}
		}
		out = append(out, hi)
	}
	sort.Slice(out, func(i, j int) bool { return out[i] < out[j] })
	return out
}
