package lib

import (
	"fmt"
	"reflect"
	"sort"
	"time"
	"unicode/utf8"

	"github.com/tormoder/fit"

	"verifharness/ref"
)

// FileGenOpts steers GenFile.
type FileGenOpts struct {
	FileType   byte
	MaxPerSlot int // max messages per ordered slot
	// Subset: 0 PRNG per message, 1 none, 2 one field, 3 half, 4 all fields.
	Subset int
	// OnlyField, if set, is the single field set in every message of its type.
	OnlyField *ref.PField
	// NoSources: never set component source fields (keeps derived fields out of play).
	NoSources bool
	HeaderCRC int // 0 PRNG, 1 without, 2 with
	Proto     int // 0 PRNG, 1 V10, 2 V20
	// Phased: long slices are filled in phases of 250-300 messages; within a phase every message sets
	// the same one or two fields, and the phases use different fields (an activity that records heart
	// rate first, cadence later ...).
	Phased bool
	// PhasedLong: 4500-9000 messages instead of 600-1100.
	PhasedLong bool
	// PhasedMin/PhasedSpan, if set, give the slice length PhasedMin + [0, PhasedSpan) instead.
	PhasedMin, PhasedSpan int
	// PhasedSlots bounds the number of slices that get the phased treatment (0: all of them).
	PhasedSlots int
	// PhasedGlobal, if set, restricts the phased treatment to slices of that message.
	PhasedGlobal uint16
	// OutOfDomain: also produce strings longer than the field and arrays longer than the profile length.
	OutOfDomain bool
	// LongStrings (values that cannot travel in full): one time in four has a sub-second part;
	// one string in six is longer than its field (field length .. 600 bytes) and one
	// array in six longer than the profile length (.. 513 elements).
	LongStrings bool
	// MaxFieldsSet bounds the number of fields set per message (0: no bound). Messages whose
	// encoded size would exceed what one record can hold are the encoder's documented FIXME.
}

var utf8Pool = []string{"\uFFFD", "a", "Zz", "fēnix", "日本", "éàü", "Edge 1030", "x", "ß", "0123456789", "Größe", "😀", "abc def", "\uFEFF", "\uFEFFbom", " lead", "trail ", "\ttab", "nl\n", "\u200b", "\x01c", "\x7f", "e\u0301"}

// genString returns a valid UTF-8 string of at most max bytes.
func genString(rng *Rand, max int) string {
	if max <= 0 {
		return ""
	}
	if rng.Chance(1, 5) {
		// exactly the maximum length, ending in a multi-byte character when it fits
		b := make([]byte, 0, max)
		for len(b) < max-2 {
			b = append(b, 'a'+byte(rng.Intn(26)))
		}
		if max-len(b) == 2 {
			b = append(b, "é"...)
		}
		for len(b) < max {
			b = append(b, 'z')
		}
		return string(b)
	}
	s := ""
	for tries := 0; tries < 8; tries++ {
		p := utf8Pool[rng.Intn(len(utf8Pool))]
		if len(s)+len(p) > max {
			break
		}
		s += p
		if rng.Chance(1, 3) {
			break
		}
	}
	return s
}

func typeMask(k reflect.Kind) uint64 {
	switch k {
	case reflect.Uint8, reflect.Int8:
		return 0xFF
	case reflect.Uint16, reflect.Int16:
		return 0xFFFF
	case reflect.Uint32, reflect.Int32:
		return 0xFFFFFFFF
	}
	return ^uint64(0)
}

func setScalar(rng *Rand, v reflect.Value, bt ref.BaseType, allowInvalid bool) {
	for {
		x := scalarPattern(rng, bt)
		if x == bt.Invalid && !allowInvalid {
			continue
		}
		switch v.Kind() {
		case reflect.Uint8, reflect.Uint16, reflect.Uint32, reflect.Uint64:
			v.SetUint(x & typeMask(v.Kind()))
		case reflect.Int8, reflect.Int16, reflect.Int32, reflect.Int64:
			v.SetInt(ref.SignExtend(x, bt.Size))
		}
		return
	}
}

// SetField sets struct field pf of message value mv (addressable struct) to
// an in-domain value.
func SetField(rng *Rand, mv reflect.Value, pf *ref.PField, o *FileGenOpts) {
	fv := mv.Field(pf.Sindex)
	bt := ref.BaseTypes[pf.Base]
	switch pf.Kind {
	case ref.KTimeUTC:
		sec := 1 + rng.U64()%(1<<32-2)
		if rng.Chance(1, 4) {
			sec = []uint64{1, 1<<32 - 2, 0x10000000, 1000000000}[rng.Intn(4)]
		}
		t := time.Unix(ref.FitEpochUnix+int64(sec), 0).UTC()
		// the same instant expressed in another location (time.Now() in a non-UTC process, a
		// parsed RFC 3339 string with an offset ...): a UTC field stores the instant
		switch rng.Intn(8) {
		case 0:
			t = t.In(time.FixedZone("GENUTC", (rng.Intn(29)-14)*3600+rng.Intn(4)*900))
		case 1:
			t = t.In(time.Local)
		case 2, 3:
			// a zone from the zone database; half of these within two hours of one of its
			// daylight-saving transitions (the hour that happens twice, the hour that is skipped)
			if zs := TZZones(); len(zs) > 0 {
				z := zs[rng.Intn(len(zs))]
				if tr := TZTransitions(z); len(tr) > 0 && rng.Chance(1, 2) {
					u := tr[rng.Intn(len(tr))] + int64(rng.Intn(14400)) - 7200
					if s := u - ref.FitEpochUnix; s > 0 && s < 1<<32-2 {
						t = time.Unix(u, 0)
					}
				}
				t = t.In(z)
			}
		}
		if rng.Chance(1, 24) {
			// the instant of the FIT epoch itself, carried in a location other than UTC: a set
			// value (only the package's own UTC sentinel means "unset"), 0 on the wire
			t = time.Unix(ref.FitEpochUnix, 0).In(time.FixedZone([]string{"GENUTC", "UTC", ""}[rng.Intn(3)], (rng.Intn(29)-14)*3600))
		}
		if o != nil && o.LongStrings && rng.Chance(1, 4) {
			// a value with a sub-second part (time.Now()): its whole seconds travel
			t = t.Add(time.Duration([]int{1, 499999999, 500000000, 500000001, 999999999, 1 + rng.Intn(999999998)}[rng.Intn(6)]))
		}
		fv.Set(reflect.ValueOf(t))
		return
	case ref.KTimeLocal:
		// wall-clock reading in range; zone offset within +-14 h
		off := (rng.Intn(29) - 14) * 3600
		if rng.Chance(1, 3) {
			off = 0
		}
		wall := int64(86400 + rng.U64()%(1<<32-2*86400))
		if rng.Chance(1, 12) {
			// the first day after the FIT epoch: east of Greenwich the instant lies before the epoch
			wall = int64(1 + rng.Intn(86399))
		}
		if rng.Chance(1, 16) {
			// a wall-clock reading on the first day whose instant is exactly the FIT epoch
			// (02:00 at +02:00): a set value; the field carries the offset in seconds
			off = (1 + rng.Intn(14)) * 3600
			wall = int64(off)
		}
		t := time.Unix(ref.FitEpochUnix+wall-int64(off), 0).In(time.FixedZone("GEN", off))
		if zs := TZZones(); len(zs) > 0 && rng.Chance(1, 6) {
			// wall-clock reading in a zone from the zone database, half of them near a transition
			z := zs[rng.Intn(len(zs))]
			u := t.Unix()
			if tr := TZTransitions(z); len(tr) > 0 && rng.Chance(1, 2) {
				u = tr[rng.Intn(len(tr))] + int64(rng.Intn(14400)) - 7200
			}
			zt := time.Unix(u, 0).In(z)
			_, zo := zt.Zone()
			if w := u - ref.FitEpochUnix + int64(zo); w > 0 && w < 1<<32-2 {
				t = zt
			}
		}
		if o != nil && o.LongStrings && rng.Chance(1, 4) && t.Unix() >= ref.FitEpochUnix {
			// (not for instants before the FIT epoch, i.e. local times of the first day east of
			// Greenwich: which whole second a sub-second value "has" there is not defined by the
			// statement, and the library counts toward the epoch)
			t = t.Add(time.Duration([]int{1, 499999999, 500000000, 500000001, 999999999, 1 + rng.Intn(999999998)}[rng.Intn(6)]))
		}
		fv.Set(reflect.ValueOf(t))
		return
	case ref.KLat:
		s := int32(rng.U64()%(1<<31)) - 1<<30
		if rng.Chance(1, 4) {
			s = []int32{-(1 << 30), 1<<30 - 1, 0, 1, -1}[rng.Intn(5)]
		}
		fv.Set(reflect.ValueOf(fit.NewLatitude(s)))
		return
	case ref.KLng:
		s := int32(rng.U64())
		if s == 0x7FFFFFFF {
			s = 0
		}
		if rng.Chance(1, 4) {
			s = []int32{-(1 << 31), 1<<31 - 2, 0, 1, -1}[rng.Intn(5)]
		}
		fv.Set(reflect.ValueOf(fit.NewLongitude(s)))
		return
	}
	if bt.Code == 0x07 {
		if pf.Array {
			return // arrays of strings cannot be encoded; outside every domain
		}
		max := int(pf.Length) - 1
		if o != nil && o.OutOfDomain && rng.Chance(1, 3) {
			max = int(pf.Length) + 10
		}
		if o != nil && o.LongStrings && rng.Chance(1, 6) {
			n := []int{max + 1, max + 2, max + 3, 255, 256, 257, 300, 511, 512, 513, 600}[rng.Intn(11)]
			if n <= max {
				n = max + 1
			}
			// multi-byte characters around the place where the field ends
			b := make([]byte, 0, n+4)
			for len(b) < n {
				if len(b) >= max-3 && len(b) <= max+1 && rng.Chance(1, 2) {
					b = append(b, []string{"é", "日", "😀"}[rng.Intn(3)]...)
				} else {
					b = append(b, 'a'+byte(rng.Intn(26)))
				}
			}
			fv.SetString(string(b))
			return
		}
		fv.SetString(genString(rng, max))
		return
	}
	if pf.Array {
		n := 1 + rng.Intn(int(pf.Length))
		if o != nil && o.OutOfDomain && rng.Chance(1, 3) {
			n = int(pf.Length) + 1 + rng.Intn(3)
		}
		if o != nil && o.LongStrings && rng.Chance(1, 6) {
			// an array longer than the profile length: the first Length elements travel
			n = []int{int(pf.Length) + 1, int(pf.Length) + 2, 255, 256, 257, 300, 512, 513}[rng.Intn(8)]
		}
		sl := reflect.MakeSlice(fv.Type(), n, n)
		for i := 0; i < n; i++ {
			setScalar(rng, sl.Index(i), bt, true)
		}
		fv.Set(sl)
		return
	}
	setScalar(rng, fv, bt, rng.Chance(1, 10))
}

// FillMesg sets a subset of the fields of the message pointed to by mp
// (pointer to struct).
func FillMesg(rng *Rand, g uint16, mp reflect.Value, o *FileGenOpts) {
	prof := Profile()
	mv := mp.Elem()
	fields := prof.ByMesg[g]
	if len(fields) == 0 {
		return
	}
	sources := map[byte]bool{}
	if o.NoSources {
		for _, s := range ref.CompSources(g) {
			sources[s] = true
		}
	}
	if o.OnlyField != nil {
		if o.OnlyField.Mesg == g {
			SetField(rng, mv, o.OnlyField, o)
		}
		return
	}
	mode := o.Subset
	if mode == 0 {
		mode = 1 + rng.Intn(4)
	}
	var n int
	switch mode {
	case 1:
		n = 0
	case 2:
		n = 1
	case 3:
		n = (len(fields) + 1) / 2
	default:
		n = len(fields)
	}
	// One record cannot exceed what the 255 x 3 definition and 255-byte
	// fields allow, but large "all" subsets are legal; keep them.
	for _, i := range rng.Perm(len(fields))[:n] {
		pf := fields[i]
		if sources[pf.Num] {
			continue
		}
		if g == 0 && pf.Num == 0 {
			continue // file type is fixed by NewFile
		}
		SetField(rng, mv, pf, o)
	}
}

// GenFile builds a File through the public API.
func GenFile(rng *Rand, o FileGenOpts) *fit.File {
	prof := Profile()
	crc := rng.Chance(1, 2)
	if o.HeaderCRC == 1 {
		crc = false
	} else if o.HeaderCRC == 2 {
		crc = true
	}
	pv := fit.V20
	if o.Proto == 1 || o.Proto == 0 && rng.Chance(1, 2) {
		pv = fit.V10
	}
	f, err := fit.NewFile(fit.FileType(o.FileType), fit.NewHeader(pv, crc))
	if err != nil {
		return nil
	}
	// NewFile leaves FileId zero-valued apart from the type (TimeCreated is
	// then the year-1 zero time, which no FIT timestamp can represent); a
	// user in the representable domain starts from the all-invalid message.
	f.FileId = *fit.NewFileIdMsg()
	f.FileId.Type = fit.FileType(o.FileType)
	FillMesg(rng, 0, reflect.ValueOf(&f.FileId), &o)
	if rng.Chance(1, 2) {
		m := fit.VerifNewMesg(49)
		FillMesg(rng, 49, m, &o)
		f.FileCreator = m.Interface().(*fit.FileCreatorMsg)
	}
	if rng.Chance(1, 4) {
		f.TimestampCorrelation = fit.VerifNewMesg(162).Interface().(*fit.TimestampCorrelationMsg)
	}
	cont := Container(f, o.FileType)
	if cont == nil {
		return nil
	}
	cv := reflect.ValueOf(cont).Elem()
	specs := prof.Files[o.FileType]
	max := o.MaxPerSlot
	if max == 0 {
		max = 4
	}
	phasedDone := 0
	for i, s := range specs {
		fv := cv.Field(i)
		if s.Single {
			if rng.Chance(2, 3) {
				m := fit.VerifNewMesg(s.Global)
				FillMesg(rng, s.Global, m, &o)
				fv.Set(m)
			}
			continue
		}
		n := rng.Intn(max + 1)
		if o.Phased && len(prof.ByMesg[s.Global]) >= 4 && (o.PhasedSlots == 0 || phasedDone < o.PhasedSlots) && (o.PhasedGlobal == 0 || s.Global == o.PhasedGlobal) {
			phasedDone++
			n = 600 + rng.Intn(500)
			if o.PhasedLong {
				n = 4500 + rng.Intn(4500)
			}
			if o.PhasedMin > 0 {
				n = o.PhasedMin + rng.Intn(o.PhasedSpan+1)
			}
			fields := prof.ByMesg[s.Global]
			var phase []*ref.PField
			left := 0
			var headOnly, tailOnly *ref.PField
			tailLen := 1 + rng.Intn(3)
			pick := func() *ref.PField {
				pf := fields[rng.Intn(len(fields))]
				if pf.Array && ref.BaseTypes[pf.Base].Code == 7 {
					return nil
				}
				return pf
			}
			if rng.Chance(1, 2) {
				headOnly = pick()
			}
			if rng.Chance(2, 3) {
				tailOnly = pick()
			}
			quiet := o.PhasedMin >= 60000
			if quiet {
				// a very long slice in which nothing new happens for a long time: all phases use
				// the same two fields, and one other field shows up in the last messages only
				fields = fields[:2]
				headOnly = nil
				for _, pf := range prof.ByMesg[s.Global][2:] {
					if !(pf.Array && ref.BaseTypes[pf.Base].Code == 7) {
						tailOnly = pf
					}
				}
			}
			for k := 0; k < n; k++ {
				if left == 0 {
					left = 250 + rng.Intn(60)
					phase = phase[:0]
					for _, i := range rng.Perm(len(fields))[:1+rng.Intn(2)] {
						if pf := fields[i]; !(pf.Array && ref.BaseTypes[pf.Base].Code == 7) {
							phase = append(phase, pf)
						}
					}
				}
				left--
				m := fit.VerifNewMesg(s.Global)
				for _, pf := range phase {
					SetField(rng, m.Elem(), pf, &o)
				}
				// a field that only the first message, or only the last one to three messages, set
				// (a value known at the start / a summary written at the end)
				if k == 0 && headOnly != nil {
					SetField(rng, m.Elem(), headOnly, &o)
				}
				if k >= n-tailLen && tailOnly != nil {
					SetField(rng, m.Elem(), tailOnly, &o)
				}
				fv.Set(reflect.Append(fv, m))
			}
			continue
		}
		for k := 0; k < n; k++ {
			m := fit.VerifNewMesg(s.Global)
			FillMesg(rng, s.Global, m, &o)
			fv.Set(reflect.Append(fv, m))
		}
		if n == 0 && fv.Kind() == reflect.Slice && rng.Chance(1, 2) {
			// an empty slice that is not nil (records[:0], make([]*T, 0, n), a literal []*T{}):
			// it holds no messages, like a nil one
			fv.Set(reflect.MakeSlice(fv.Type(), 0, rng.Intn(4)))
		}
	}
	return f
}

// Relax normalises a canonical message for the comparisons the round-trip
// statements prescribe: arrays up to trailing invalid padding (nil = all
// invalid), UTC times by instant, local times by wall-clock reading.
func Relax(g uint16, vals []ref.Val) []ref.Val {
	prof := Profile()
	out := append([]ref.Val(nil), vals...)
	for _, pf := range prof.ByMesg[g] {
		if pf.Sindex >= len(out) {
			continue
		}
		v := out[pf.Sindex]
		switch v.K {
		case 'a':
			bt := ref.BaseTypes[pf.Base]
			a := v.A
			if pf.Array && len(a) > int(pf.Length) {
				a = a[:pf.Length] // longer than the profile length: the first Length elements travel
			}
			for len(a) > 0 {
				last := a[len(a)-1]
				inv := false
				switch last.K {
				case 'u':
					inv = last.N == bt.Invalid
				case 'i':
					inv = int64(last.N) == ref.SignExtend(bt.Invalid, bt.Size)
				case 's':
					inv = last.S == ""
				}
				if !inv {
					break
				}
				a = a[:len(a)-1]
			}
			out[pf.Sindex] = ref.Val{K: 'a', A: append([]ref.Val(nil), a...)}
		case 's':
			// a string longer than its field travels as the longest prefix that fits (length-1
			// bytes) without splitting a character
			if max := int(pf.Length) - 1; !pf.Array && max >= 0 && len(v.S) > max {
				n := max
				for n > 0 && !utf8.RuneStart(v.S[n]) {
					n--
				}
				out[pf.Sindex] = ref.Val{K: 's', S: v.S[:n]}
			}
		case 't':
			if pf.Kind == ref.KTimeLocal {
				out[pf.Sindex] = ref.Val{K: 't', N: uint64(int64(v.N) + int64(v.Off))} // whole seconds travel, the sub-second part cannot
			} else {
				out[pf.Sindex] = ref.Val{K: 't', N: v.N}
			}
		}
	}
	return out
}

// RelaxContent applies Relax to every message of a content.
func RelaxContent(c *Content) *Content {
	if c == nil {
		return nil
	}
	d := *c
	d.FileId = Relax(0, c.FileId)
	d.Slots = make([]Slot, len(c.Slots))
	for i, s := range c.Slots {
		ns := s
		ns.Msgs = make([][]ref.Val, len(s.Msgs))
		for j, m := range s.Msgs {
			ns.Msgs[j] = Relax(s.Global, m)
		}
		d.Slots[i] = ns
	}
	return &d
}

// PadArrays returns the message as it looks after being written with the
// profile's fixed array lengths: arrays shorter than the profile length are
// padded with the element type's invalid value, longer ones are cut.
func PadArrays(g uint16, vals []ref.Val) []ref.Val {
	prof := Profile()
	out := append([]ref.Val(nil), vals...)
	for _, pf := range prof.ByMesg[g] {
		if !pf.Array || pf.Sindex >= len(out) {
			continue
		}
		v := out[pf.Sindex]
		if v.K != 'a' || v.Nil || len(v.A) == 0 {
			continue
		}
		bt := ref.BaseTypes[pf.Base]
		if bt.Code == 0x07 {
			continue
		}
		a := append([]ref.Val(nil), v.A...)
		if len(a) > int(pf.Length) {
			a = a[:pf.Length]
		}
		for len(a) < int(pf.Length) {
			if bt.Signed {
				a = append(a, ref.I(ref.SignExtend(bt.Invalid, bt.Size)))
			} else {
				a = append(a, ref.U(bt.Invalid))
			}
		}
		out[pf.Sindex] = ref.Val{K: 'a', A: a}
	}
	return out
}

// HasOverlong reports whether a content holds a string longer than its field or an array longer
// than the profile length (values that cannot travel in full).
func HasOverlong(c *Content) bool {
	if c == nil {
		return false
	}
	prof := Profile()
	over := func(g uint16, vals []ref.Val) bool {
		for _, pf := range prof.ByMesg[g] {
			if pf.Sindex >= len(vals) {
				continue
			}
			v := vals[pf.Sindex]
			if v.K == 's' && !pf.Array && len(v.S) > int(pf.Length)-1 {
				return true
			}
			if v.K == 'a' && pf.Array && len(v.A) > int(pf.Length) {
				return true
			}
		}
		return false
	}
	if over(0, c.FileId) {
		return true
	}
	for _, s := range c.Slots {
		for _, m := range s.Msgs {
			if over(s.Global, m) {
				return true
			}
		}
	}
	return false
}

// EditInPlace rewrites, in place, the first and the last message of every non-empty message
// slice of f's container with freshly drawn field subsets (the slices and the message pointers
// stay the same objects): what a caller does who corrects a File between two Encode calls. The
// edit is a function of seed only, so two deep-equal Files stay deep-equal.
func EditInPlace(f *fit.File, seed uint64) (edited int) {
	if f == nil {
		return 0
	}
	cont := Container(f, byte(f.FileId.Type))
	if cont == nil {
		return 0
	}
	cv := reflect.ValueOf(cont).Elem()
	specs := Profile().Files[byte(f.FileId.Type)]
	o := &FileGenOpts{Subset: 3}
	for j := 0; j < cv.NumField() && j < len(specs); j++ {
		fv := cv.Field(j)
		if fv.Kind() != reflect.Slice || fv.Len() == 0 {
			continue
		}
		for _, k := range []int{0, fv.Len() - 1} {
			mp := fv.Index(k)
			if mp.Kind() != reflect.Ptr || mp.IsNil() {
				continue
			}
			rng := NewRand("EditInPlace", seed*1000+uint64(j)*2+uint64(k&1))
			fresh := fit.VerifNewMesg(specs[j].Global)
			FillMesg(rng, specs[j].Global, fresh, o)
			mp.Elem().Set(fresh.Elem())
			edited++
		}
	}
	return edited
}

// CrossPair names a message type that one file type holds as a slice and another as a single
// message.
type CrossPair struct {
	Global                uint16
	SliceFT, SingleFT     byte
	SliceSlot, SingleSlot int
}

// CrossPairs lists every (message, file type with a slice of it, file type with a single one).
func CrossPairs() (out []CrossPair) {
	prof := Profile()
	var fts []int
	for ft := range prof.Files {
		fts = append(fts, int(ft))
	}
	sort.Ints(fts)
	for _, a := range fts {
		for i, sa := range prof.Files[byte(a)] {
			if sa.Single {
				continue
			}
			for _, b := range fts {
				for j, sb := range prof.Files[byte(b)] {
					if sb.Single && sb.Global == sa.Global {
						out = append(out, CrossPair{sa.Global, byte(a), byte(b), i, j})
					}
				}
			}
		}
	}
	return out
}

// CrossFile builds one member of a cross pair: with asSlice, a File of the slice-holding type
// whose slice has n copies of one message (drawn from seed); otherwise a File of the other type
// whose single slot holds that same message. Both have the same file_id apart from the type
// and nothing else set.
func CrossFile(cp CrossPair, seed uint64, asSlice bool, n int) *fit.File {
	ft := cp.SingleFT
	if asSlice {
		ft = cp.SliceFT
	}
	f, err := fit.NewFile(fit.FileType(ft), fit.NewHeader(fit.V20, true))
	if err != nil {
		return nil
	}
	f.FileId = *fit.NewFileIdMsg()
	f.FileId.Type = fit.FileType(ft)
	cont := Container(f, ft)
	if cont == nil {
		return nil
	}
	cv := reflect.ValueOf(cont).Elem()
	mk := func() reflect.Value {
		m := fit.VerifNewMesg(cp.Global)
		FillMesg(NewRand("CrossFile", seed), cp.Global, m, &FileGenOpts{Subset: 3 + int(seed%2)}) // half of the fields, or all
		return m
	}
	if asSlice {
		fv := cv.Field(cp.SliceSlot)
		sl := reflect.MakeSlice(fv.Type(), 0, n)
		for k := 0; k < n; k++ {
			sl = reflect.Append(sl, mk())
		}
		fv.Set(sl)
	} else {
		cv.Field(cp.SingleSlot).Set(mk())
	}
	return f
}

// VaryLengths gives every string field and every numeric array field of every message of f's
// container a value whose length is a function of (variant, field position): the same File
// shape in several "sizes", the way one device writes files that differ in a name or a list. It
// also covers fields for which the profile gives no size. No expectation about what Encode
// keeps of such values is attached; the users compare calls with calls.
func VaryLengths(f *fit.File, variant int) (set int) {
	if f == nil {
		return 0
	}
	cont := Container(f, byte(f.FileId.Type))
	if cont == nil {
		return 0
	}
	cv := reflect.ValueOf(cont).Elem()
	specs := Profile().Files[byte(f.FileId.Type)]
	words := []string{"Alpe", "Col du Galibier", "x", "Passo dello Stelvio, east ramp from Prato", "fēnix", "0123456789abcdef0123456789abcdef01234567"}
	doMsg := func(mv reflect.Value, salt int) {
		for i := 0; i < mv.NumField(); i++ {
			fv := mv.Field(i)
			switch {
			case fv.Kind() == reflect.String:
				fv.SetString(words[(variant*7+i+salt)%len(words)])
				set++
			case fv.Kind() == reflect.Slice && fv.Len() > 0:
				switch fv.Type().Elem().Kind() {
				case reflect.Uint8, reflect.Uint16, reflect.Uint32, reflect.Int8, reflect.Int16, reflect.Int32:
					n := 1 + (variant*3+i+salt)%6
					sl := reflect.MakeSlice(fv.Type(), n, n)
					for k := 0; k < n; k++ {
						sl.Index(k).Set(fv.Index(k % fv.Len()))
					}
					fv.Set(sl)
					set++
				}
			}
		}
	}
	for j := 0; j < cv.NumField(); j++ {
		fv := cv.Field(j)
		switch {
		case fv.Kind() == reflect.Ptr && fv.Type().Elem().Kind() == reflect.Struct:
			if fv.IsNil() {
				fv.Set(reflect.New(fv.Type().Elem()))
				// all-invalid message of that type, then the strings
				if j < len(specs) {
					if nm := fit.VerifNewMesg(specs[j].Global); nm.IsValid() && nm.Elem().Type() == fv.Type().Elem() {
						fv.Elem().Set(nm.Elem())
					}
				}
			}
			doMsg(fv.Elem(), j)
		case fv.Kind() == reflect.Slice:
			for k := 0; k < fv.Len(); k++ {
				if mp := fv.Index(k); mp.Kind() == reflect.Ptr && !mp.IsNil() && mp.Elem().Kind() == reflect.Struct {
					doMsg(mp.Elem(), j+k)
				}
			}
		}
	}
	return set
}

// ShareArrays rebuilds every array field (slice of numbers) of every message of f's container
// as a window of a larger buffer: the slice keeps its elements and length but gets spare
// capacity, and the memory right behind it holds marker values, as if another File's field
// lived there. It returns a function that reports whether any marker was overwritten.
func ShareArrays(f *fit.File) (check func() string) {
	type guard struct {
		tail reflect.Value // the marker elements behind the field's length
		name string
	}
	var guards []guard
	cont := Container(f, byte(f.FileId.Type))
	if cont == nil {
		return func() string { return "" }
	}
	cv := reflect.ValueOf(cont).Elem()
	mark := func(v reflect.Value, i int) {
		switch v.Kind() {
		case reflect.Uint8, reflect.Uint16, reflect.Uint32, reflect.Uint64:
			v.SetUint(uint64(0x11 + i))
		case reflect.Int8, reflect.Int16, reflect.Int32, reflect.Int64:
			v.SetInt(int64(0x11 + i))
		case reflect.Float32, reflect.Float64:
			v.SetFloat(float64(3 + i))
		}
	}
	var doMsg func(mv reflect.Value, where string)
	doMsg = func(mv reflect.Value, where string) {
		for i := 0; i < mv.NumField(); i++ {
			fv := mv.Field(i)
			if fv.Kind() != reflect.Slice || fv.IsNil() || fv.Len() == 0 {
				continue
			}
			switch fv.Type().Elem().Kind() {
			case reflect.Uint8, reflect.Uint16, reflect.Uint32, reflect.Uint64, reflect.Int8, reflect.Int16, reflect.Int32, reflect.Int64, reflect.Float32, reflect.Float64:
			default:
				continue
			}
			n := fv.Len()
			buf := reflect.MakeSlice(fv.Type(), n+8, n+8)
			reflect.Copy(buf, fv)
			for k := 0; k < 8; k++ {
				mark(buf.Index(n+k), k)
			}
			fv.Set(buf.Slice3(0, n, n+8))
			guards = append(guards, guard{buf.Slice(n, n+8), fmt.Sprintf("%s.%s", where, mv.Type().Field(i).Name)})
		}
	}
	for j := 0; j < cv.NumField(); j++ {
		fv := cv.Field(j)
		switch fv.Kind() {
		case reflect.Ptr:
			if !fv.IsNil() && fv.Elem().Kind() == reflect.Struct {
				doMsg(fv.Elem(), cv.Type().Field(j).Name)
			}
		case reflect.Slice:
			for k := 0; k < fv.Len(); k++ {
				if mp := fv.Index(k); mp.Kind() == reflect.Ptr && !mp.IsNil() {
					doMsg(mp.Elem(), fmt.Sprintf("%s[%d]", cv.Type().Field(j).Name, k))
				}
			}
		}
	}
	return func() string {
		for _, g := range guards {
			fresh := reflect.MakeSlice(g.tail.Type(), 8, 8)
			for k := 0; k < 8; k++ {
				mark(fresh.Index(k), k)
			}
			if !reflect.DeepEqual(g.tail.Interface(), fresh.Interface()) {
				return fmt.Sprintf("%s: the memory behind the field's length was %v, is now %v", g.name, fresh.Interface(), g.tail.Interface())
			}
		}
		return ""
	}
}
