package lib

import (
	"fmt"
	"sort"

	"verifharness/ref"
)

// MsgMeta is what the model knows about one expected message.
type MsgMeta struct {
	Seq    int // index of the data record in the plan
	Global uint16
	Hosted bool
	Comp   ref.CompInfo
	Slot   string
	Index  int // index within the slot (ordered slots)
	// Compressed: the record had a compressed timestamp header.
	Compressed bool
}

// Expectation is the model's verdict for a plan.
type Expectation struct {
	Content *Content
	// Fail: the stream must be rejected (data record for an undefined local type) at record FailAt.
	Fail   bool
	FailAt int
	Meta   []MsgMeta
	Interp *ref.Interp
}

// ExpectOpts selects optional parts of the expectation.
type ExpectOpts struct {
	NoExpand bool // do not apply component rules (destinations are then masked by the caller)
	UpTo     int  // if > 0, interpret only the first UpTo records
}

// Expect runs the reference interpreter over the plan and routes the
// resulting messages into the container declared for the file's type.
func Expect(p *ref.Plan, o ExpectOpts) (*Expectation, error) {
	prof := Profile()
	it := ref.NewInterp(prof)
	ex := &Expectation{Interp: it}
	data := p.DataBytes()
	hdr := p.HeaderBytes(len(data))
	all := p.Bytes()
	c := &Content{HeaderSize: hdr[0], Proto: p.Proto, ProfVer: p.ProfVer, DataSize: uint32(len(data))}
	if hdr[0] == 14 {
		c.HeaderCRC = uint16(hdr[12]) | uint16(hdr[13])<<8
	}
	c.CRC = uint16(all[len(all)-2]) | uint16(all[len(all)-1])<<8
	c.FileType = 0xFF
	fc := Slot{Name: "FileCreator", Global: 49, Single: true}
	tc := Slot{Name: "TimestampCorrelation", Global: 162, Single: true}
	var slots []Slot
	slotIdx := map[uint16]int{}
	inited := false
	n := len(p.Records)
	if o.UpTo > 0 && o.UpTo < n {
		n = o.UpTo
	}
	for i := 0; i < n; i++ {
		m, err := it.Feed(&p.Records[i])
		if err == ref.ErrUndefinedLocal {
			ex.Fail = true
			ex.FailAt = i
			break
		}
		if err != nil {
			return nil, err
		}
		if m == nil {
			continue
		}
		meta := MsgMeta{Seq: i, Global: m.Global, Compressed: p.Records[i].Compressed}
		if m.Global == 0 {
			c.FileId = m.F
			if !inited {
				// File type is the first field of file_id by FIT field number 0.
				pf := prof.Field(0, 0)
				if pf == nil {
					return nil, fmt.Errorf("model: profile has no file_id.type")
				}
				c.FileType = byte(m.F[pf.Sindex].N)
				for _, s := range prof.Files[c.FileType] {
					slotIdx[s.Global] = len(slots)
					slots = append(slots, Slot{Name: s.Name, Global: s.Global, Single: s.Single})
				}
				inited = true
			}
			meta.Hosted = true
			meta.Slot = "FileId"
			ex.Meta = append(ex.Meta, meta)
			continue
		}
		var dst *Slot
		switch m.Global {
		case 49:
			dst = &fc
		case 162:
			dst = &tc
		default:
			if k, ok := slotIdx[m.Global]; ok {
				dst = &slots[k]
			}
		}
		if dst != nil {
			meta.Hosted = true
			meta.Slot = dst.Name
			if !o.NoExpand && ref.IsComponentMesg(m.Global) {
				meta.Comp = prof.Expand(m, &it.Comp)
			}
			if dst.Single {
				dst.Msgs = [][]ref.Val{m.F}
			} else {
				meta.Index = len(dst.Msgs)
				dst.Msgs = append(dst.Msgs, m.F)
			}
		}
		ex.Meta = append(ex.Meta, meta)
	}
	c.Slots = append([]Slot{fc, tc}, slots...)
	for k, v := range it.UnknownFields {
		c.UnknownFields = append(c.UnknownFields, [3]int{int(k >> 8), int(k & 0xFF), v})
	}
	sort.Slice(c.UnknownFields, func(i, j int) bool {
		a, b := c.UnknownFields[i], c.UnknownFields[j]
		if a[0] != b[0] {
			return a[0] < b[0]
		}
		return a[1] < b[1]
	})
	for k, v := range it.UnknownMsgs {
		c.UnknownMessages = append(c.UnknownMessages, [2]int{int(k), v})
	}
	sort.Slice(c.UnknownMessages, func(i, j int) bool { return c.UnknownMessages[i][0] < c.UnknownMessages[j][0] })
	ex.Content = c
	return ex, nil
}

// CompareOpts selects what CompareContent looks at.
type CompareOpts struct {
	Header bool
	// Unknown: also compare the unknown-field and unknown-message lists.
	Unknown bool
	// Skip reports struct fields to leave out (component destinations etc.).
	Skip func(slot string, g uint16, idx int, sindex int) bool
}

// CompareContent compares expected with observed content.
func CompareContent(exp, got *Content, o CompareOpts) []Diff {
	var out []Diff
	st := func(where, e, g string) {
		out = append(out, Diff{Where: where, Sindex: -1, Exp: e, Got: g})
	}
	if got == nil {
		st("file", "a File", "nil")
		return out
	}
	if o.Header {
		if exp.HeaderSize != got.HeaderSize || exp.Proto != got.Proto || exp.ProfVer != got.ProfVer || exp.DataSize != got.DataSize || exp.HeaderCRC != got.HeaderCRC {
			st("header", fmt.Sprintf("%d/%#x/%d/%d/%#x", exp.HeaderSize, exp.Proto, exp.ProfVer, exp.DataSize, exp.HeaderCRC),
				fmt.Sprintf("%d/%#x/%d/%d/%#x", got.HeaderSize, got.Proto, got.ProfVer, got.DataSize, got.HeaderCRC))
		}
		if exp.CRC != got.CRC {
			st("crc", fmt.Sprintf("%#x", exp.CRC), fmt.Sprintf("%#x", got.CRC))
		}
	}
	if exp.FileType != got.FileType {
		st("filetype", fmt.Sprint(exp.FileType), fmt.Sprint(got.FileType))
	}
	skipFor := func(slot string, g uint16, idx int) func(int) bool {
		if o.Skip == nil {
			return nil
		}
		return func(si int) bool { return o.Skip(slot, g, idx, si) }
	}
	if o.Unknown {
		if fmt.Sprint(exp.UnknownFields) != fmt.Sprint(got.UnknownFields) {
			st("unknown fields", fmt.Sprint(exp.UnknownFields), fmt.Sprint(got.UnknownFields))
		}
		if fmt.Sprint(exp.UnknownMessages) != fmt.Sprint(got.UnknownMessages) {
			st("unknown messages", fmt.Sprint(exp.UnknownMessages), fmt.Sprint(got.UnknownMessages))
		}
	}
	out = append(out, CompareMsgs("fileid", "FileId", 0, 0, exp.FileId, got.FileId, skipFor("FileId", 0, 0))...)
	if len(exp.Slots) != len(got.Slots) {
		st("slots", fmt.Sprintf("%d slots", len(exp.Slots)), fmt.Sprintf("%d slots", len(got.Slots)))
		return out
	}
	for i := range exp.Slots {
		es, gs := exp.Slots[i], got.Slots[i]
		if es.Name != gs.Name || es.Global != gs.Global {
			st("slots", es.Name, gs.Name)
			continue
		}
		if len(es.Msgs) != len(gs.Msgs) {
			out = append(out, Diff{Where: "count", Slot: es.Name, Global: es.Global, Sindex: -1, Exp: fmt.Sprintf("%d messages", len(es.Msgs)), Got: fmt.Sprintf("%d messages", len(gs.Msgs))})
			continue
		}
		for j := range es.Msgs {
			out = append(out, CompareMsgs("slot", es.Name, es.Global, j, es.Msgs[j], gs.Msgs[j], skipFor(es.Name, es.Global, j))...)
		}
	}
	return out
}
