package checks

import (
	"bufio"
	"bytes"
	"context"
	"fmt"
	"io"
	"net"
	"os"
	"path/filepath"
	"strings"
	"sync"
	"syscall"

	"github.com/tormoder/fit"

	"verifharness/lib"
	"verifharness/ref"
)

func init() { registrars = append(registrars, registerC11) }

func registerC11() {
	lib.Register(&lib.Check{
		ID:    "C11",
		Level: "fault_enumeration",
		Rule: "streams: PRNG model files of all 17 file types (<= ~700 bytes, both header sizes, unknown items, developer fields, compressed timestamps), short device " +
			"files, and chains of 2-3 of them; for every stream EVERY byte offset c in [0, len] x {clean cut, injected non-EOF read error from c on: a private sentinel, io.ErrUnexpectedEOF, io.ErrClosedPipe, os.ErrClosed, and - rotating by offset, all of them at every file boundary - deadline / timeout / cancellation / connection-reset / path errors} x six entry points x " +
			"{1-byte reads, greedy reads} is executed: c before the entry point's needed prefix => a non-nil error and (Decode, DecodeChained) a partial File holding exactly " +
			"the messages of the records complete before c; c at or after it => the intact result; at every other offset Decode / DecodeChained run with all options on (second chunker): same error and messages, and the unknown-field / unknown-message lists of the partial File must lie between the model of the complete records and the model including the record in flight; clean EOF exactly on a file boundary of a chain => the files before it and " +
			"nil; a fault on a boundary => error. The same cuts are also made on disk and read through *os.File (every third offset). Family huge-streams: files of 6 and 9 MiB cut or faulted at offsets beyond 4 MiB (Decode, DecodeChained), same oracle. Family large-streams: model streams of 9-40 KB (several refills of the decoder's 4096-byte buffer) cut/faulted at every offset within 40 bytes of a multiple of 4096, within 64 bytes of either end, and at every 211th offset in between, under 1000-byte and greedy chunkers, same oracle. The fault values rotate through error values of real reader stacks and through errors this library itself returned for empty or cut sources (bare and wrapped), all of them tried at every file boundary, for DecodeChained also through readers offering ReadByte / UnreadByte (bufio.Reader of two sizes, a plain byte scanner). A case is one (stream, offset, kind, entry point, chunker) execution; non-trivial: c lies strictly inside the stream; distinct by construction",
		Assume:        []string{"partial content is compared on message slots (the file_id of a file whose file_id record is incomplete is not defined)"},
		MinNontrivial: 5000,
		Families: []lib.Family{
			{Name: "streams", N: func(t string) uint64 { return tierN(t, 48, 4000) }, Run: c11Stream},
			{Name: "huge-streams", N: func(t string) uint64 { return 2 }, Run: c11Huge},
			{Name: "large-streams", N: func(t string) uint64 { return tierN(t, 6, 300) }, Run: c11Large},
		},
		Exhaustive: func(string) bool { return false },
	})
}

// faultKinds: how the reader ends at the chosen offset. Besides a private sentinel the injected
// faults use error values a real reader stack returns (a truncated gzip or TLS stream yields
// io.ErrUnexpectedEOF, a closed pipe io.ErrClosedPipe): none of them is a clean end of input.
var faultKinds = []struct {
	name     string
	err      error
	withData bool // the last bytes before the end arrive in the same Read call as the end
}{
	{"clean cut", nil, false},
	{"read fault (sentinel error)", lib.ErrInjected, false},
	{"read fault (io.ErrUnexpectedEOF)", io.ErrUnexpectedEOF, false},
	{"read fault (io.ErrClosedPipe)", io.ErrClosedPipe, false},
	{"read fault (wrapped io.EOF is still an error: fs.ErrClosed)", os.ErrClosed, false},
	// io.Reader: "callers should always process the n > 0 bytes returned before considering the
	// error": bytes that arrive together with the end were delivered before it
	{"clean cut, last bytes delivered together with io.EOF", nil, true},
	{"read fault (sentinel error) delivered together with the last bytes", lib.ErrInjected, true},
}

// c11Timeout is an error of a type of its own that reports itself as a timeout.
type c11Timeout struct{}

func (c11Timeout) Error() string   { return "verif: i/o timeout" }
func (c11Timeout) Timeout() bool   { return true }
func (c11Timeout) Temporary() bool { return true }

var c11MoreErrs = []error{
	lib.ErrInjected, os.ErrDeadlineExceeded, context.DeadlineExceeded, context.Canceled, io.ErrNoProgress, io.ErrShortBuffer,
	syscall.ECONNRESET, syscall.EINTR, syscall.EAGAIN, net.ErrClosed, os.ErrNotExist, c11Timeout{},
	&os.PathError{Op: "read", Path: "/dev/fit", Err: syscall.EIO}, fmt.Errorf("wrapped: %w", os.ErrDeadlineExceeded),
	// what a decompressing or length-limited reader returns when ITS source ends early: the
	// stream handed to the decoder is cut, whatever the position
	io.ErrUnexpectedEOF, fmt.Errorf("gzip: %w", io.ErrUnexpectedEOF), io.ErrClosedPipe,
}

// Errors that the library itself returned earlier (for an empty source, for a source cut inside
// the header, for a failing source), bare and wrapped once more: what a reader hands on that is
// fed by another stage using this package (a pipe closed with the producer's error).
var c11OwnOnce sync.Once

// c11OwnErrs extends c11MoreErrs once per process. (Not at package init: a harness process must
// not touch the library before the check it runs does - other checks need cold processes.)
func c11OwnErrs() {
	c11OwnOnce.Do(c11OwnErrsInit)
}

func c11OwnErrsInit() {
	var own []error
	_, e := fit.Decode(bytes.NewReader(nil))
	own = append(own, e)
	_, e = fit.DecodeHeader(bytes.NewReader(nil))
	own = append(own, e)
	_, _, e = fit.DecodeHeaderAndFileID(bytes.NewReader(nil))
	own = append(own, e)
	own = append(own, fit.CheckIntegrity(bytes.NewReader(nil), false))
	_, e = fit.DecodeChained(bytes.NewReader(nil))
	own = append(own, e)
	_, e = fit.Decode(bytes.NewReader([]byte{14, 0x20, 0x43}))
	own = append(own, e)
	_, e = fit.Decode(bytes.NewReader([]byte{14}))
	own = append(own, e)
	for i, e := range own {
		if e == nil {
			continue
		}
		c11MoreErrs = append(c11MoreErrs, e)
		if i < 3 {
			c11MoreErrs = append(c11MoreErrs, fmt.Errorf("upstream stage: %w", e))
		}
	}
}

type c11File struct {
	plan  *ref.Plan
	bytes []byte
	offs  []int // record offsets + crc offset
}

func c11Plan(rng *lib.Rand, k uint64) *ref.Plan {
	ft := lib.FileTypes[k%uint64(len(lib.FileTypes))].Type
	o := lib.GenOpts{FileType: ft, Mesgs: lib.HostedMesgs(ft), Records: 2 + rng.Intn(8), Locals: 1 + rng.Intn(3), Redefine: 10, BigEndian: 50,
		Unknown: 25, Compressed: 15, NoTimeZero: true, MaxFields: 3, Serial: true}
	return lib.NewPlanGen(rng, o).Fill()
}

func c11Stream(c *lib.Ctx, idx uint64) {
	rng := lib.NewRand("C11.streams", idx)
	nfiles := 1
	if idx%4 == 3 {
		nfiles = 2 + rng.Intn(2)
	}
	c11Run(c, rng, idx, nfiles, false)
}

// c11Large: long streams, strided offsets.
func c11Large(c *lib.Ctx, idx uint64) {
	rng := lib.NewRand("C11.large-streams", idx)
	nfiles := 1
	if idx%3 == 2 {
		nfiles = 2
	}
	c11Run(c, rng, idx, nfiles, true)
}

// c11Huge: one file of 6 (9) MiB - mostly 65 KB records of an unknown message, a known record
// after every tenth, some thousand small records at the end - cut or faulted at offsets beyond
// 4 MiB (block boundaries, inside the big records, inside the small ones, inside the CRC): an
// error, and a partial File with exactly the messages complete before the cut.
func c11Huge(c *lib.Ctx, idx uint64) {
	rng := lib.NewRand("C11.huge", idx)
	plan := hugePlan(rng, []int{6, 9}[idx], 3000)
	b := plan.Bytes()
	f := c11File{plan, b, plan.RecordOffsets()}
	partialCache = map[partialKey]*lib.Expectation{}
	c.SetInflight(b[:4096])
	n := len(b)
	cuts := []int{4<<20 - 1, 4 << 20, 4<<20 + 1, 4<<20 + 4096, 4<<20 + 70000, 5<<20 + 123, n - 40000, n - 20001, n - 9000, n - 4097, n - 4096, n - 301, n - 3, n - 2, n - 1}
	if idx == 1 {
		cuts = append(cuts, 8<<20, 8<<20+1, 8<<20+300000)
	}
	for _, cut := range cuts {
		if cut <= 0 || cut >= n {
			continue
		}
		for fault := 0; fault < 3; fault++ {
			for _, ch := range []lib.Chunker{{Kind: "greedy"}, {Kind: "fixed", Size: 65536}, {Kind: "fixed", Size: 4096}} {
				if fault == 2 {
					ch.ErrWithData, ch.EOFWithData = true, true
				}
				for _, ep := range []string{"Decode", "DecodeChained"} {
					r := &lib.Reader{Data: b, Limit: cut, Fault: fault >= 1, Ch: ch}
					var res lib.CallResult
					c11WithOpts = false
					o := lib.Guard(func() { res = lib.Call(ep, r) })
					c.Eval()
					where := fmt.Sprintf("%s, %s at offset %d of a %d byte file, %s reads", ep, []string{"clean cut", "read fault", "read fault delivered with the last bytes"}[fault], cut, n, ch)
					if o.Panicked || o.Hang {
						c.Violation(b[:4096], "%s: panicked/hung: %s", where, o.Panic)
						return
					}
					if res.Err == nil {
						c.Violation(b[:4096], "%s: nil error for an incomplete file", where)
						return
					}
					var got *lib.Content
					if ep == "Decode" {
						got = lib.FileContent(res.File)
					} else if len(res.Files) == 1 {
						got = lib.FileContent(res.Files[0])
					} else if len(res.Files) > 1 {
						c.Violation(b[:4096], "%s: %d files returned for one incomplete file", where, len(res.Files))
						return
					}
					if !partialOK(c, b[:4096], where, f, cut, got) {
						return
					}
				}
			}
		}
	}
	c.Count("huge_stream_bytes", int64(n))
	c.Nontrivial(b[:4096], []byte{byte(idx)})
}

func c11Run(c *lib.Ctx, rng *lib.Rand, idx uint64, nfiles int, large bool) {
	c11OwnErrs()
	// the cache of partial expectations is only useful within one stream (and would otherwise
	// hold thousands of decoded messages per entry for the large streams)
	partialCache = map[partialKey]*lib.Expectation{}
	var files []c11File
	var stream []byte
	var bounds []int // end offset of each file within stream
	for i := 0; i < nfiles; i++ {
		var p *ref.Plan
		if idx%16 == 5 && i == 0 {
			// a short device file, re-read as a plan
			for _, cf := range Corpus() {
				if len(cf.Data) < 1200 {
					if pp, err := ref.Parse(cf.Data, ref.ParseOptions{}); err == nil && pp.FrameLen == len(cf.Data) && rng.Chance(1, 2) {
						p = &ref.Plan{HeaderSize: pp.HeaderSize, Proto: pp.Proto, ProfVer: pp.ProfVer, Records: pp.Records, HeaderCRCZero: pp.HeaderSize == 14 && pp.HeaderCRC == 0}
						break
					}
				}
			}
		}
		if large {
			ft := lib.FileTypes[(idx+uint64(i))%uint64(len(lib.FileTypes))].Type
			o := lib.GenOpts{FileType: ft, Mesgs: lib.HostedMesgs(ft), Records: 250 + rng.Intn(900), Locals: 1 + rng.Intn(4), Redefine: 6, BigEndian: 50,
				Unknown: 25, Compressed: 15, NoTimeZero: true, MaxFields: 6, Serial: true}
			p = lib.NewPlanGen(rng, o).Fill()
		}
		if p == nil {
			p = c11Plan(rng, idx+uint64(i))
		}
		b := p.Bytes()
		// The stream must be accepted intact and match the model, otherwise it is not a valid base.
		ex, err := lib.Expect(p, lib.ExpectOpts{})
		if err != nil || ex.Fail {
			return
		}
		files = append(files, c11File{p, b, p.RecordOffsets()})
		stream = append(stream, b...)
		bounds = append(bounds, len(stream))
	}
	c.SetInflight(stream)
	// Intact results.
	intact := map[string]lib.CallResult{}
	for _, ep := range lib.EntryPoints {
		var res lib.CallResult
		o := lib.Guard(func() { res = lib.Call(ep, lib.NewReader(stream, lib.Chunker{Kind: "whole"})) })
		if o.Panicked || o.Hang {
			c.Violation(stream, "%s panicked on the intact stream: %s", ep, o.Panic)
			return
		}
		if res.Err != nil {
			// Acceptance of intact well-formed streams is C02's subject; this stream is not a usable base here.
			c.Count("streams_not_accepted_intact", 1)
			return
		}
		intact[ep] = res
	}
	first := files[0]
	hs := int(first.bytes[0])
	need := map[string]int{
		"DecodeHeader":          hs,
		"CheckIntegrityHeader":  hs,
		"DecodeHeaderAndFileID": first.offs[2],
		"Decode":                len(first.bytes),
		"CheckIntegrity":        len(first.bytes),
		"DecodeChained":         len(stream),
	}
	chunkers := []lib.Chunker{{Kind: "one"}, {Kind: "greedy"}}
	if large {
		chunkers = []lib.Chunker{{Kind: "fixed", Size: 1000}, {Kind: "greedy"}}
	}
	noffsets := 0
	for cut := 0; cut <= len(stream); cut++ {
		if large {
			m := cut % 4096
			hs0 := int(stream[0])
			near := m <= 40 || m >= 4096-40 || (cut-hs0)%4096 <= 40 && cut >= hs0 || cut < 64 || cut > len(stream)-64 || cut%211 == 0
			for _, bd := range bounds {
				if cut >= bd-40 && cut <= bd+40 {
					near = true
				}
			}
			if !near {
				continue
			}
		}
		noffsets++
		for fault := 0; fault < len(faultKinds); fault++ {
			if cut == len(stream) && faultKinds[fault].err == nil {
				continue // the intact stream
			}
			for _, ep := range lib.EntryPoints {
				for ci, ch := range chunkers {
					isFault := faultKinds[fault].err != nil
					if faultKinds[fault].withData {
						ch.EOFWithData, ch.ErrWithData = true, true
					}
					ferr := faultKinds[fault].err
					if fault == 1 {
						// the first fault kind rotates through further error values real reader stacks
						// return (deadlines, timeouts, resets ...): by offset here, all of them at
						// every file boundary below
						ferr = c11MoreErrs[(cut+int(idx))%len(c11MoreErrs)]
					}
					r := &lib.Reader{Data: stream, Limit: cut, Fault: isFault, FaultErr: ferr, Ch: ch}
					var res lib.CallResult
					// every other offset, the decoding entry points run with all options on (second
					// chunker only): error and messages must be the same, and the unknown lists of
					// the partial File must cover what was complete before the cut
					var opts []fit.DecodeOption
					c11WithOpts = false
					if ci == len(chunkers)-1 && cut%2 == 1 && (ep == "Decode" || ep == "DecodeChained") {
						opts = optionList(7, &countingLogger{}, uint64(cut))
						c11WithOpts = true
					}
					o := lib.Guard(func() { res = lib.Call(ep, r, opts...) })
					c.Eval()
					where := fmt.Sprintf("%s, %s at offset %d of %d, %s reads", ep, faultKinds[fault].name, cut, len(stream), ch)
					if c11WithOpts {
						where += ", all options on"
					}
					if o.Panicked || o.Hang {
						c.Violation(stream, "%s: panicked/hung: %s", where, o.Panic)
						return
					}
					if !c11Judge(c, stream, where, ep, cut, isFault, need[ep], res, intact[ep], files, bounds) {
						return
					}
				}
			}
		}
	}
	// Every further error value at every file boundary (and at the end of the stream): none of
	// them is a clean end of input.
	for _, bd := range append(append([]int{}, bounds...), len(stream)) {
		for _, fe := range c11MoreErrs {
			for _, ep := range []string{"DecodeChained", "Decode", "CheckIntegrity"} {
				r := &lib.Reader{Data: stream, Limit: bd, Fault: true, FaultErr: fe, Ch: lib.Chunker{Kind: "greedy"}}
				var res lib.CallResult
				c11WithOpts = false
				o := lib.Guard(func() { res = lib.Call(ep, r) })
				c.Eval()
				where := fmt.Sprintf("%s, read fault (%v) at offset %d of %d (a file boundary)", ep, fe, bd, len(stream))
				if o.Panicked || o.Hang {
					c.Violation(stream, "%s: panicked/hung: %s", where, o.Panic)
					return
				}
				if !c11Judge(c, stream, where, ep, bd, true, need[ep], res, intact[ep], files, bounds) {
					return
				}
				c.Count("boundary_faults_with_further_error_values", 1)
			}
		}
	}
	// round 13: the same boundary faults reach DecodeChained through readers that also offer
	// ReadByte / UnreadByte (and Peek): bufio.Reader of the default size and of 16 bytes, and a
	// plain byte scanner. Whatever a decoder asks such a reader at a file boundary, an error
	// other than a clean end of input is not the end of the chain.
	for bi, bd := range append(append([]int{}, bounds...), len(stream)) {
		for fi, fe := range c11MoreErrs {
			r := &lib.Reader{Data: stream, Limit: bd, Fault: true, FaultErr: fe, Ch: lib.Chunker{Kind: "greedy"}}
			var rd io.Reader
			kind := ""
			switch (bi + fi) % 3 {
			case 0:
				rd, kind = bufio.NewReader(r), "bufio.Reader"
			case 1:
				rd, kind = bufio.NewReaderSize(r, 16), "bufio.Reader (16 bytes)"
			default:
				rd, kind = &c11ByteScanner{r: r}, "reader with ReadByte/UnreadByte"
			}
			var res lib.CallResult
			c11WithOpts = false
			o := lib.Guard(func() { res = lib.Call("DecodeChained", rd) })
			c.Eval()
			where := fmt.Sprintf("DecodeChained through a %s, read fault (%v) at offset %d of %d (a file boundary)", kind, fe, bd, len(stream))
			if o.Panicked || o.Hang {
				c.Violation(stream, "%s: panicked/hung: %s", where, o.Panic)
				return
			}
			if !c11Judge(c, stream, where, "DecodeChained", bd, true, need["DecodeChained"], res, intact["DecodeChained"], files, bounds) {
				return
			}
			c.Count("boundary_faults_through_byte_scanners", 1)
		}
	}
	// The same cuts with the prefix in a file on disk read through *os.File (a reader that can
	// also Seek, Stat and ReadAt: whatever a decoder does with that knowledge, a truncated file
	// is judged like any other truncated stream). Every third offset and the intact stream.
	dir := filepath.Join(lib.OutDir(), "work", "C11-files")
	os.MkdirAll(dir, 0o755)
	path := filepath.Join(dir, fmt.Sprintf("cut-%d-%d.fit", os.Getpid(), idx))
	defer os.Remove(path)
	for cut := 0; cut <= len(stream); cut++ {
		if cut%3 != int(idx%3) && cut != len(stream) {
			continue
		}
		if large && cut%4096 > 40 && cut%4096 < 4096-40 && cut%211 != 0 && cut != len(stream) {
			continue
		}
		if os.WriteFile(path, stream[:cut], 0o644) != nil {
			break
		}
		for _, ep := range []string{"Decode", "DecodeChained", "CheckIntegrity", "DecodeHeaderAndFileID"} {
			fh, err := os.Open(path)
			if err != nil {
				break
			}
			var res lib.CallResult
			c11WithOpts = false
			o := lib.Guard(func() { res = lib.Call(ep, fh) })
			fh.Close()
			c.Eval()
			where := fmt.Sprintf("%s on an *os.File holding the first %d of %d bytes", ep, cut, len(stream))
			if o.Panicked || o.Hang {
				c.Violation(stream, "%s: panicked/hung: %s", where, o.Panic)
				return
			}
			if cut == len(stream) {
				if res.Err != nil && intact[ep].Err == nil {
					c.Violation(stream, "%s: error %v on the intact stream", where, res.Err)
					return
				}
				continue
			}
			if !c11Judge(c, stream, where, ep, cut, false, need[ep], res, intact[ep], files, bounds) {
				return
			}
			c.Count("cuts_read_through_os_file", 1)
		}
	}
	// The same clean cuts through readers of other dynamic types, which offer more than Read
	// (look-ahead, length, seeking, ReadByte, WriteTo): bufio.Reader with its default and with a
	// 16-byte buffer, a reader with a Peek method of its own, bytes.Buffer, bytes.Reader,
	// strings.Reader, io.SectionReader. Whatever a decoder learns that way, a cut stream is a cut
	// stream. All kinds at offsets up to 16 bytes past a file boundary, one kind (rotating) elsewhere.
	mkReaders := []struct {
		name string
		mk   func(b []byte) io.Reader
	}{
		{"bufio.Reader", func(b []byte) io.Reader { return bufio.NewReader(bytes.NewReader(b)) }},
		{"bufio.Reader(16)", func(b []byte) io.Reader {
			return bufio.NewReaderSize(&lib.Reader{Data: b, Limit: len(b), Ch: lib.Chunker{Kind: "one"}}, 16)
		}},
		{"a reader with Peek", func(b []byte) io.Reader { return &peekReader{b: b} }},
		{"bytes.Buffer", func(b []byte) io.Reader { return bytes.NewBuffer(append([]byte{}, b...)) }},
		{"bytes.Reader", func(b []byte) io.Reader { return bytes.NewReader(b) }},
		{"strings.Reader", func(b []byte) io.Reader { return strings.NewReader(string(b)) }},
		{"io.SectionReader", func(b []byte) io.Reader { return io.NewSectionReader(bytes.NewReader(b), 0, int64(len(b))) }},
	}
	for cut := 0; cut < len(stream); cut++ {
		nearBound := false
		for _, bd := range bounds {
			if cut >= bd && cut <= bd+16 {
				nearBound = true
			}
		}
		if large && !nearBound && cut%4096 > 40 && cut%4096 < 4096-40 && cut%211 != 0 {
			continue
		}
		for k, rk := range mkReaders {
			if !nearBound && k != (cut+int(idx))%len(mkReaders) {
				continue
			}
			for _, ep := range []string{"DecodeChained", "Decode"} {
				var res lib.CallResult
				c11WithOpts = false
				r := rk.mk(stream[:cut])
				o := lib.Guard(func() { res = lib.Call(ep, r) })
				c.Eval()
				where := fmt.Sprintf("%s on %s holding the first %d of %d bytes", ep, rk.name, cut, len(stream))
				if o.Panicked || o.Hang {
					c.Violation(stream, "%s: panicked/hung: %s", where, o.Panic)
					return
				}
				if !c11Judge(c, stream, where, ep, cut, false, need[ep], res, intact[ep], files, bounds) {
					return
				}
				c.Count("cuts_read_through_readers_with_extra_methods", 1)
			}
		}
	}
	n := int64(noffsets-1) * int64(len(faultKinds)) * int64(len(lib.EntryPoints)) * int64(len(chunkers))
	c.NontrivialN(n)
	c.Count("streams", 1)
	c.Count("offsets", int64(noffsets))
	if large {
		c.Count("large_streams", 1)
		c.Count("large_stream_bytes", int64(len(stream)))
	}
	c.Count(fmt.Sprintf("files_per_stream_%d", nfiles), 1)
	c.Sample("stream", 2, map[string]interface{}{"files": nfiles, "bytes": len(stream), "executions": n})
}

type partialKey struct {
	plan *ref.Plan
	k    int
}

// c11WithOpts: the call being judged ran with all decode options on (workers are single-threaded).
var c11WithOpts bool

// partialCache: many cut offsets share the same number of complete records.
var partialCache = map[partialKey]*lib.Expectation{}

func slotsEmpty(ct *lib.Content) bool {
	if ct == nil {
		return true
	}
	for _, s := range ct.Slots {
		if len(s.Msgs) > 0 {
			return false
		}
	}
	return true
}

// partialOK checks that the File returned with an error holds exactly the
// messages of the records complete before offset cut (relative to the file).
func partialOK(c *lib.Ctx, stream []byte, where string, f c11File, cut int, got *lib.Content) bool {
	k := 0
	for i := range f.plan.Records {
		if f.offs[i+1] <= cut {
			k = i + 1
		}
	}
	if k < 2 {
		if !slotsEmpty(got) {
			c.Violation(stream, "%s: the partial File holds messages although not even the file_id record was complete", where)
			return false
		}
		return true
	}
	ck := partialKey{f.plan, k}
	ex, cached := partialCache[ck]
	if !cached {
		var err error
		ex, err = lib.Expect(f.plan, lib.ExpectOpts{UpTo: k})
		if err != nil {
			c.Violation(stream, "harness: model failed: %v", err)
			return false
		}
		if len(partialCache) > 8 { // offsets come in increasing order: only the latest few prefixes are asked for again
			partialCache = map[partialKey]*lib.Expectation{}
		}
		partialCache[ck] = ex
	}
	if got == nil {
		c.Violation(stream, "%s: no File returned although %d records were complete before the cut", where, k)
		return false
	}
	prof := lib.Profile()
	// Timestamps of compressed records and component destinations are other properties' subjects,
	// but the model implements both; compare everything except header/CRC.
	skip := compSkip(f.plan, ex)
	_ = prof
	if diffs := lib.CompareContent(ex.Content, got, lib.CompareOpts{Skip: skip}); len(diffs) > 0 {
		c.Violation(stream, "%s: the partial File does not hold exactly the %d records complete before the cut: %s", where, k, lib.DiffsString(diffs, 3))
		return false
	}
	c.Count("partial_files_compared", 1)
	if c11WithOpts {
		if !got.HasUF || !got.HasUM {
			c.Violation(stream, "%s: the partial File has a nil unknown list although both options are on and %d records were complete before the cut", where, k)
			return false
		}
		hi, err := lib.Expect(f.plan, lib.ExpectOpts{UpTo: k + 1})
		if err != nil {
			c.Violation(stream, "harness: model failed: %v", err)
			return false
		}
		// the library counts a message when its data record starts: between the model of the
		// complete records and the model with the cut record included
		if msg := boundsUF(got.UnknownFields, ex.Content.UnknownFields, hi.Content.UnknownFields); msg != "" {
			c.Violation(stream, "%s: unknown fields of the partial File do not cover the %d records complete before the cut: %s (reported %v)", where, k, msg, got.UnknownFields)
			return false
		}
		if msg := boundsUM(got.UnknownMessages, ex.Content.UnknownMessages, hi.Content.UnknownMessages); msg != "" {
			c.Violation(stream, "%s: unknown messages of the partial File do not cover the %d records complete before the cut: %s (reported %v)", where, k, msg, got.UnknownMessages)
			return false
		}
		c.Count("partial_files_with_unknown_lists_compared", 1)
	}
	return true
}

func c11Judge(c *lib.Ctx, stream []byte, where, ep string, cut int, fault bool, need int, res, intact lib.CallResult, files []c11File, bounds []int) bool {
	if ep == "DecodeChained" {
		// Which file does the cut fall in?
		k := 0
		for k < len(bounds) && bounds[k] <= cut {
			k++
		}
		onBoundary := k >= 1 && bounds[k-1] == cut
		if cut == len(stream) && fault {
			// Everything was delivered; the fault comes after the last file.
			if res.Err == nil {
				c.Violation(stream, "%s: nil error although the reader failed right after the last file", where)
				return false
			}
		} else if onBoundary && !fault {
			if res.Err != nil || len(res.Files) != k {
				c.Violation(stream, "%s: clean end of input on a file boundary must end the chain: got %d files, error %v, want %d files and nil", where, len(res.Files), res.Err, k)
				return false
			}
			c.Count("clean_boundary_cuts", 1)
			return true
		} else if res.Err == nil {
			c.Violation(stream, "%s: nil error for an incomplete stream (returned %d files)", where, len(res.Files))
			return false
		}
		// Files complete before the cut must be there, then possibly one partial file.
		if len(res.Files) < k || len(res.Files) > k+1 {
			c.Violation(stream, "%s: %d files returned, %d were complete before the cut", where, len(res.Files), k)
			return false
		}
		for i := 0; i < k; i++ {
			if diffs := lib.CompareContent(lib.FileContent(intact.Files[i]), lib.FileContent(res.Files[i]), lib.CompareOpts{Header: true, Skip: distanceSkip(res.Files[i])}); len(diffs) > 0 {
				c.Violation(stream, "%s: complete file %d differs from the intact decode: %s", where, i+1, lib.DiffsString(diffs, 3))
				return false
			}
		}
		if len(res.Files) == k+1 && k < len(files) {
			start := 0
			if k > 0 {
				start = bounds[k-1]
			}
			return partialOK(c, stream, where, files[k], cut-start, lib.FileContent(res.Files[k]))
		}
		return true
	}
	if cut < need {
		if res.Err == nil {
			c.Violation(stream, "%s: nil error although only %d of the %d bytes it needs were available", where, cut, need)
			return false
		}
		if ep == "Decode" {
			return partialOK(c, stream, where, files[0], cut, lib.FileContent(res.File))
		}
		return true
	}
	// Enough was available: same result as on the intact stream.
	if res.Err != nil {
		c.Violation(stream, "%s: error %v although all %d bytes it needs were available", where, res.Err, need)
		return false
	}
	switch ep {
	case "DecodeHeader", "DecodeHeaderAndFileID":
		if res.Header != intact.Header {
			c.Violation(stream, "%s: header differs from the intact result", where)
			return false
		}
		if ep == "DecodeHeaderAndFileID" {
			if d := lib.CompareMsgs("fileid", "FileId", 0, 0, lib.MsgVals(reflectValue(intact.FileId)), lib.MsgVals(reflectValue(res.FileId)), nil); len(d) > 0 {
				c.Violation(stream, "%s: file_id differs from the intact result: %s", where, lib.DiffsString(d, 2))
				return false
			}
		}
	case "Decode":
		if diffs := lib.CompareContent(lib.FileContent(intact.File), lib.FileContent(res.File), lib.CompareOpts{Header: true, Skip: distanceSkip(res.File)}); len(diffs) > 0 {
			c.Violation(stream, "%s: result differs from the intact decode: %s", where, lib.DiffsString(diffs, 3))
			return false
		}
	}
	return true
}

// peekReader: an in-memory reader with look-ahead of its own (Peek, Buffered, Discard), the
// method set of a buffered reader without being one.
type peekReader struct {
	b   []byte
	pos int
}

func (p *peekReader) Read(q []byte) (int, error) {
	if p.pos >= len(p.b) {
		return 0, io.EOF
	}
	n := copy(q, p.b[p.pos:])
	p.pos += n
	return n, nil
}

func (p *peekReader) Peek(n int) ([]byte, error) {
	if p.pos+n > len(p.b) {
		return p.b[p.pos:], io.EOF
	}
	return p.b[p.pos : p.pos+n], nil
}

func (p *peekReader) Buffered() int { return len(p.b) - p.pos }

func (p *peekReader) Discard(n int) (int, error) {
	if p.pos+n > len(p.b) {
		d := len(p.b) - p.pos
		p.pos = len(p.b)
		return d, io.EOF
	}
	p.pos += n
	return n, nil
}

// c11ByteScanner adds ReadByte / UnreadByte to a reader without buffering ahead: a byte is
// fetched when it is asked for; errors of the source are passed on as they are.
type c11ByteScanner struct {
	r       io.Reader
	last    byte
	hasLast bool // a byte was read last and can be unread
	pending bool // last has been unread and is delivered next
}

func (b *c11ByteScanner) Read(p []byte) (int, error) {
	if len(p) == 0 {
		return 0, nil
	}
	if b.pending {
		p[0] = b.last
		b.pending = false
		b.hasLast = true
		return 1, nil
	}
	n, err := b.r.Read(p)
	if n > 0 {
		b.last, b.hasLast = p[n-1], true
	}
	return n, err
}

func (b *c11ByteScanner) ReadByte() (byte, error) {
	var one [1]byte
	for {
		n, err := b.Read(one[:])
		if n == 1 {
			return one[0], nil
		}
		if err != nil {
			return 0, err
		}
	}
}

func (b *c11ByteScanner) UnreadByte() error {
	if !b.hasLast || b.pending {
		return fmt.Errorf("c11ByteScanner: nothing to unread")
	}
	b.pending, b.hasLast = true, false
	return nil
}
