package checks

import (
	"fmt"
	"os"
	"sort"
	"strings"
	"sync"

	"github.com/tormoder/fit"

	"verifharness/lib"
	"verifharness/ref"
)

func init() { registrars = append(registrars, registerC16) }

func registerC16() {
	lib.Register(&lib.Check{
		ID:    "C16",
		Level: "exploration",
		Rule: "PRNG streams rich in unknown messages, unknown fields of known messages and developer fields, in five variants (intact, truncated at a PRNG offset, file CRC " +
			"corrupted, data record on an undefined local type, a file type without container after a file_id with unlisted fields); each decoded under all 8 combinations of {logger, unknown fields, unknown messages} (options given in varying order, one of them sometimes twice) through a counting reader " +
			"and a logger that formats every argument; every fourth stream also with the library's own WithStdLogger (os.Stderr pointed at the null device) before / between / after the two unknown-item options: same result as with the two options alone; decoded content, error text and bytes consumed must be identical across the 8 runs, the lists absent when their option is " +
			"off, sorted, and equal to the model's counts (failing streams: at least the completed records, at most completed + the record in flight); family many: files with 5000 / 9000 / all (> 65000) distinct unknown message numbers, and with 6000 / 20000 distinct (known message, unlisted field number) pairs, one or two records each, and files in which one unknown field / one unknown message occurs in 70000 records: the lists must name every one of them with its exact count; family chains: 2-3 such streams concatenated and decoded by DecodeChained under the 8 option sets: every File of the chain must carry exactly its own file's lists; the logger is passed as values of several dynamic kinds (pointer, struct, func, array, *log.Logger); non-trivial: the model " +
			"expects at least one unknown message and one unknown field; distinct by stream digest",
		Assume: []string{
			"definitions do not list the same unknown field number twice (the count would then be per occurrence, which the statement does not define)",
			"record.distance of records whose compressed_speed_distance expands is not compared between the 8 runs (known finding F5: it depends on the process-lifetime accumulator; decided in C18)",
		},
		MinNontrivial: 300,
		Families386:   []string{"chains"}, // once more in a GOARCH=386 binary (32-bit int), when the host can run it
		Families: []lib.Family{
			{Name: "streams", N: func(t string) uint64 { return tierN(t, 40000, 1000000) }, Run: c16Case},
			{Name: "chains", N: func(t string) uint64 { return tierN(t, 4000, 100000) }, Run: c16Chain},
			{Name: "many", N: func(t string) uint64 { return 8 }, Run: c16Many},
		},
	})
}

type countingLogger struct {
	calls int
	bytes int
}

func (l *countingLogger) Print(a ...interface{}) { l.calls++; l.bytes += len(fmt.Sprint(a...)) }
func (l *countingLogger) Printf(f string, a ...interface{}) {
	l.calls++
	l.bytes += len(fmt.Sprintf(f, a...))
}
func (l *countingLogger) Println(a ...interface{}) { l.calls++; l.bytes += len(fmt.Sprintln(a...)) }

func contentKey(ct *lib.Content) string {
	if ct == nil {
		return "<nil file>"
	}
	var sb strings.Builder
	fmt.Fprintf(&sb, "h%d/%d/%d/%d/%d crc%d ft%d id%v|", ct.HeaderSize, ct.Proto, ct.ProfVer, ct.DataSize, ct.HeaderCRC, ct.CRC, ct.FileType, ct.FileId)
	for _, s := range ct.Slots {
		fmt.Fprintf(&sb, "%s:%d:", s.Name, len(s.Msgs))
		for _, m := range s.Msgs {
			for _, v := range m {
				sb.WriteString(v.String())
				sb.WriteByte(',')
			}
			sb.WriteByte(';')
		}
	}
	return sb.String()
}

func c16Case(c *lib.Ctx, idx uint64) {
	rng := lib.NewRand("C16.streams", idx)
	ft := lib.FileTypes[idx%uint64(len(lib.FileTypes))].Type
	variant := idx / uint64(len(lib.FileTypes)) % 5
	if variant == 4 {
		// a file type the library rejects, after a file_id record that carries unlisted fields:
		// the file_id record is complete, so its unknown fields must be reported with the error
		ft = []byte{0xFF, 0xF7, 0xFE, 100, 0, 8, 40, 200}[idx/85%8]
	}
	o := lib.GenOpts{
		FileType:    ft,
		Records:     8 + rng.Intn(40),
		Locals:      1 + rng.Intn(6),
		Redefine:    20,
		BigEndian:   50,
		Unknown:     70,
		BigFileId:   4,
		RepeatPrev:  8,
		DevDescribe: 30,
		MaxFields:   4,
		Narrow:      5,
		// compressed-timestamp headers on known and unknown messages: whatever the
		// options do, they must not change how the time reference advances
		Compressed:    30,
		NoTimeZero:    true,
		ZeroFieldDefs: 3,
		RedefSimilar:  30,
		ForceFields: func(r *lib.Rand, g uint16) []byte {
			if r.Chance(1, 2) {
				return []byte{253}
			}
			return nil
		},
	}
	if variant == 3 {
		o.UndefinedLocal = 40
	}
	if variant == 4 {
		o.Unknown = 100
		o.Records = 1 + rng.Intn(4)
		o.Mesgs = []uint16{49, 20, 23}
	}
	if rng.Chance(1, 2) {
		o.Mesgs = lib.HostedMesgs(ft)
	}
	g := lib.NewPlanGen(rng, o)
	plan := g.Fill()
	full := plan.Bytes()
	b := full
	offs := plan.RecordOffsets()
	complete := len(plan.Records) // records completely available
	expectErr := false
	switch variant {
	case 1: // truncate inside the record area
		lo := offs[0]
		cut := lo + rng.Intn(len(full)-lo)
		b = full[:cut]
		complete = 0
		for i := range plan.Records {
			if offs[i+1] <= cut {
				complete = i + 1
			}
		}
		expectErr = true
	case 2: // corrupt the file CRC
		b = append([]byte{}, full...)
		b[len(b)-1-rng.Intn(2)] ^= byte(1 << uint(rng.Intn(8)))
		expectErr = true
	}
	c.SetInflight(b)
	exAll, err := lib.Expect(plan, lib.ExpectOpts{})
	if err != nil {
		c.Violation(b, "harness: model failed: %v", err)
		return
	}
	if exAll.Fail {
		expectErr = true
		if exAll.FailAt < complete {
			complete = exAll.FailAt
		}
	}
	if variant == 4 {
		// Decode stops after the leading file_id (the type has no container)
		expectErr = true
		complete = 2
	}
	lower, upper := exAll.Content, exAll.Content
	if expectErr && variant != 2 {
		lo, err1 := lib.Expect(plan, lib.ExpectOpts{UpTo: maxInt(complete, 0) + 0})
		if complete == 0 {
			lo, err1 = lib.Expect(&ref.Plan{HeaderSize: plan.HeaderSize, Proto: plan.Proto, ProfVer: plan.ProfVer}, lib.ExpectOpts{})
		}
		hi, err2 := lib.Expect(plan, lib.ExpectOpts{UpTo: complete + 1})
		if err1 != nil || err2 != nil {
			c.Violation(b, "harness: model failed: %v %v", err1, err2)
			return
		}
		lower, upper = lo.Content, hi.Content
	}

	type obs struct {
		key      string
		err      string
		consumed int
		uf       [][3]int
		um       [][2]int
		hasUF    bool
		hasUM    bool
		nilFile  bool
		logCalls int
		ct       *lib.Content
	}
	// one read chunking per case, the same for all 8 runs (bytes consumed are compared between them)
	chunker := []lib.Chunker{{Kind: "whole"}, {Kind: "one"}, {Kind: "greedy"}, {Kind: "fixed", Size: 7}}[idx/68%4]
	var all [8]obs
	for mask := 0; mask < 8; mask++ {
		lg := &countingLogger{}
		opts := optionList(mask, lg, idx/3+uint64(mask)) // order and repetition of options vary
		r := lib.NewReader(b, chunker)
		var f *fit.File
		var derr error
		out := lib.Guard(func() { f, derr = fit.Decode(r, opts...) })
		c.Eval()
		if out.Panicked || out.Hang {
			c.Violation(b, "Decode with options %03b panicked/hung: %s\n%s", mask, out.Panic, out.Stack)
			return
		}
		ct := lib.FileContent(f)
		lib.BlankAccumulatedDistance(ct)
		ob := obs{key: contentKey(ct), err: lib.ErrText(derr), consumed: r.Pos, nilFile: f == nil, logCalls: lg.calls, ct: ct}
		if ct != nil {
			ob.uf, ob.um, ob.hasUF, ob.hasUM = ct.UnknownFields, ct.UnknownMessages, ct.HasUF, ct.HasUM
		}
		all[mask] = ob
	}
	base := all[0]
	if (base.err != "<nil>") != expectErr {
		c.Violation(b, "variant %d: Decode error = %s, expected failure = %v", variant, base.err, expectErr)
		return
	}
	for mask := 1; mask < 8; mask++ {
		ob := all[mask]
		if ob.key != base.key {
			d := ""
			if base.ct != nil && ob.ct != nil {
				d = lib.DiffsString(lib.CompareContent(base.ct, ob.ct, lib.CompareOpts{Header: true}), 3)
			}
			c.Violation(b, "decoded messages change with options %03b (bit 0 logger, bit 1 unknown fields, bit 2 unknown messages): without options vs with: %s", mask, d)
			return
		}
		if ob.err != base.err {
			c.Violation(b, "error changes with options %03b: %q vs %q", mask, ob.err, base.err)
			return
		}
		if ob.consumed != base.consumed {
			c.Violation(b, "bytes consumed change with options %03b: %d vs %d", mask, ob.consumed, base.consumed)
			return
		}
	}
	for mask := 0; mask < 8; mask++ {
		ob := all[mask]
		if ob.nilFile {
			continue
		}
		if mask&2 == 0 && ob.hasUF || mask&4 == 0 && ob.hasUM {
			c.Violation(b, "options %03b: an unknown list is present although its option is off", mask)
			return
		}
		if mask&1 != 0 && ob.logCalls > 0 {
			// (whether and what the decoder logs is not part of the property; counted only)
			c.Count("runs_in_which_the_logger_was_called", 1)
		}
		if mask&2 != 0 {
			if !ob.hasUF {
				c.Violation(b, "options %03b: UnknownFields is nil although the option is on (error: %s)", mask, ob.err)
				return
			}
			if !sort.SliceIsSorted(ob.uf, func(i, j int) bool {
				if ob.uf[i][0] != ob.uf[j][0] {
					return ob.uf[i][0] < ob.uf[j][0]
				}
				return ob.uf[i][1] < ob.uf[j][1]
			}) {
				c.Violation(b, "options %03b: UnknownFields is not sorted: %v", mask, ob.uf)
				return
			}
			if msg := boundsUF(ob.uf, lower.UnknownFields, upper.UnknownFields); msg != "" {
				c.Violation(b, "options %03b: unknown-field counts wrong: %s (reported %v; model for completed records %v)", mask, msg, ob.uf, lower.UnknownFields)
				return
			}
		}
		if mask&4 != 0 {
			if !ob.hasUM {
				c.Violation(b, "options %03b: UnknownMessages is nil although the option is on (error: %s)", mask, ob.err)
				return
			}
			if !sort.SliceIsSorted(ob.um, func(i, j int) bool { return ob.um[i][0] < ob.um[j][0] }) {
				c.Violation(b, "options %03b: UnknownMessages is not sorted: %v", mask, ob.um)
				return
			}
			if msg := boundsUM(ob.um, lower.UnknownMessages, upper.UnknownMessages); msg != "" {
				c.Violation(b, "options %03b: unknown-message counts wrong: %s (reported %v; model for completed records %v)", mask, msg, ob.um, lower.UnknownMessages)
				return
			}
		}
	}
	// round 13: the library's own logger option, WithStdLogger (it logs to os.Stderr, which is
	// pointed at the null device for the duration of the call), placed before, between or after
	// the two unknown-item options: a logger only adds log lines, so messages, error, bytes
	// consumed and both unknown lists are those of the run with the two options alone.
	if idx%4 == 3 {
		pos := int(idx / 4 % 3)
		two := []fit.DecodeOption{fit.WithUnknownFields(), fit.WithUnknownMessages()}
		opts := append(append(append([]fit.DecodeOption{}, two[:pos]...), fit.WithStdLogger()), two[pos:]...)
		r := lib.NewReader(b, chunker)
		var f *fit.File
		var derr error
		var out lib.Outcome
		withStderrDiscarded(func() { out = lib.Guard(func() { f, derr = fit.Decode(r, opts...) }) })
		c.Eval()
		if out.Panicked || out.Hang {
			c.Violation(b, "Decode with WithStdLogger at position %d of the option list panicked/hung: %s\n%s", pos, out.Panic, out.Stack)
			return
		}
		ct := lib.FileContent(f)
		lib.BlankAccumulatedDistance(ct)
		ref6 := all[6]
		if contentKey(ct) != ref6.key || lib.ErrText(derr) != ref6.err || r.Pos != ref6.consumed {
			c.Violation(b, "WithStdLogger at position %d of [WithUnknownFields WithUnknownMessages] changes the result: error %q vs %q, bytes consumed %d vs %d, messages equal: %v", pos, lib.ErrText(derr), ref6.err, r.Pos, ref6.consumed, contentKey(ct) == ref6.key)
			return
		}
		if ct != nil && ref6.ct != nil && (fmt.Sprint(ct.UnknownFields, ct.HasUF) != fmt.Sprint(ref6.uf, ref6.hasUF) || fmt.Sprint(ct.UnknownMessages, ct.HasUM) != fmt.Sprint(ref6.um, ref6.hasUM)) {
			c.Violation(b, "WithStdLogger at position %d of [WithUnknownFields WithUnknownMessages] removes or changes unknown-item information: fields %v (present %v) vs %v (present %v); messages %v (present %v) vs %v (present %v)", pos, ct.UnknownFields, ct.HasUF, ref6.uf, ref6.hasUF, ct.UnknownMessages, ct.HasUM, ref6.um, ref6.hasUM)
			return
		}
		c.Count("runs_with_WithStdLogger", 1)
	}
	c.Count(fmt.Sprintf("variant_%d", variant), 1)
	nf, nm := 0, 0
	for _, u := range lower.UnknownFields {
		nf += u[2]
	}
	for _, u := range lower.UnknownMessages {
		nm += u[1]
	}
	c.Count("unknown_field_records_expected", int64(nf))
	c.Count("unknown_message_records_expected", int64(nm))
	if nf > 0 && nm > 0 {
		c.Nontrivial(b)
	}
	c.Sample("stream", 3, map[string]interface{}{"variant": variant, "bytes": len(b), "error": base.err, "unknown_fields": all[7].uf, "unknown_messages": all[7].um})
}

func maxInt(a, b int) int {
	if a > b {
		return a
	}
	return b
}

func boundsUF(got, lo, hi [][3]int) string {
	g, l, h := map[[2]int]int{}, map[[2]int]int{}, map[[2]int]int{}
	for _, u := range got {
		if _, dup := g[[2]int{u[0], u[1]}]; dup {
			return fmt.Sprintf("duplicate entry for message %d field %d", u[0], u[1])
		}
		g[[2]int{u[0], u[1]}] = u[2]
	}
	for _, u := range lo {
		l[[2]int{u[0], u[1]}] = u[2]
	}
	for _, u := range hi {
		h[[2]int{u[0], u[1]}] = u[2]
	}
	for k, n := range g {
		if n < l[k] || n > h[k] || n <= 0 {
			return fmt.Sprintf("message %d field %d reported %d times, model says between %d and %d", k[0], k[1], n, l[k], h[k])
		}
	}
	for k, n := range l {
		if _, ok := g[k]; !ok && n > 0 {
			return fmt.Sprintf("message %d field %d missing, model says %d", k[0], k[1], n)
		}
	}
	return ""
}

func boundsUM(got, lo, hi [][2]int) string {
	g, l, h := map[int]int{}, map[int]int{}, map[int]int{}
	for _, u := range got {
		if _, dup := g[u[0]]; dup {
			return fmt.Sprintf("duplicate entry for message %d", u[0])
		}
		g[u[0]] = u[1]
	}
	for _, u := range lo {
		l[u[0]] = u[1]
	}
	for _, u := range hi {
		h[u[0]] = u[1]
	}
	for k, n := range g {
		if n < l[k] || n > h[k] || n <= 0 {
			return fmt.Sprintf("message %d reported %d times, model says between %d and %d", k, n, l[k], h[k])
		}
	}
	for k, n := range l {
		if _, ok := g[k]; !ok && n > 0 {
			return fmt.Sprintf("message %d missing, model says %d", k, n)
		}
	}
	return ""
}

// c16Chain: the unknown-item lists are per file, also inside a chain.
func c16Chain(c *lib.Ctx, idx uint64) {
	rng := lib.NewRand("C16.chains", idx)
	n := 2 + rng.Intn(2)
	var plans []*ref.Plan
	var chain []byte
	for i := 0; i < n; i++ {
		ft := lib.FileTypes[(idx+uint64(i)*5)%uint64(len(lib.FileTypes))].Type
		o := lib.GenOpts{FileType: ft, Records: 4 + rng.Intn(16), Locals: 1 + rng.Intn(4), Redefine: 20, BigEndian: 50, Unknown: 70, MaxFields: 3, Mesgs: lib.HostedMesgs(ft)}
		p := lib.NewPlanGen(rng, o).Fill()
		plans = append(plans, p)
		chain = append(chain, p.Bytes()...)
	}
	c.SetInflight(chain)
	for mask := 0; mask < 8; mask++ {
		opts := optionList(mask, &countingLogger{}, idx/3+uint64(mask))
		var files []*fit.File
		var err error
		o := lib.Guard(func() { files, err = fit.DecodeChained(lib.NewReader(chain, lib.Chunker{Kind: "whole"}), opts...) })
		c.Eval()
		if o.Panicked || o.Hang {
			c.Violation(chain, "DecodeChained with options %03b panicked/hung: %s", mask, o.Panic)
			return
		}
		if err != nil || len(files) != n {
			c.Violation(chain, "DecodeChained with options %03b over %d well-formed files: %d files, error %v", mask, n, len(files), err)
			return
		}
		for i, p := range plans {
			ex, merr := lib.Expect(p, lib.ExpectOpts{})
			if merr != nil || ex.Fail {
				return
			}
			got := lib.FileContent(files[i])
			if mask&2 == 0 && got.HasUF || mask&4 == 0 && got.HasUM {
				c.Violation(chain, "options %03b: file %d of the chain carries an unknown list although its option is off", mask, i+1)
				return
			}
			if mask&2 != 0 && fmt.Sprint(got.UnknownFields) != fmt.Sprint(ex.Content.UnknownFields) {
				c.Violation(chain, "options %03b: file %d of a chain reports unknown fields %v, its own records give %v", mask, i+1, got.UnknownFields, ex.Content.UnknownFields)
				return
			}
			if mask&4 != 0 && fmt.Sprint(got.UnknownMessages) != fmt.Sprint(ex.Content.UnknownMessages) {
				c.Violation(chain, "options %03b: file %d of a chain reports unknown messages %v, its own records give %v", mask, i+1, got.UnknownMessages, ex.Content.UnknownMessages)
				return
			}
		}
	}
	c.Count("chains", 1)
	c.Nontrivial(chain)
}

// c16Many: the lists must be complete however many distinct items a file has.
func c16Many(c *lib.Ctx, idx uint64) {
	rng := lib.NewRand("C16.many", idx)
	prof := lib.Profile()
	plan := &ref.Plan{HeaderSize: 14, Proto: 0x20, ProfVer: 2115}
	plan.Records = append(plan.Records,
		ref.Record{IsDef: true, Local: 0, Global: 0, Fields: []ref.FieldDef{{Num: 0, Size: 1, Base: 0}}},
		ref.Record{Local: 0, Data: [][]byte{{4}}})
	switch idx {
	case 0, 1, 2:
		want := []int{5000, 9000, 70000}[idx]
		n := 0
		for g := 1; g < 0xFFFF && n < want; g++ {
			if prof.Known[uint16(g)] {
				continue
			}
			n++
			local := byte(1 + g%15)
			arch := byte(g % 2)
			plan.Records = append(plan.Records, ref.Record{IsDef: true, Local: local, Arch: arch, Global: uint16(g), Fields: []ref.FieldDef{{Num: byte(g), Size: 1, Base: 0x02}}})
			for k := 0; k <= g%2; k++ {
				plan.Records = append(plan.Records, ref.Record{Local: local, Data: [][]byte{{byte(k)}}})
			}
		}
	case 6, 7:
		// one item, very many records: 70 000 (66 000) records of one known message that all
		// carry the same unlisted field, and as many records of one unknown message
		n := []int{70000, 66000}[idx-6]
		plan.Records = append(plan.Records,
			ref.Record{IsDef: true, Local: 1, Arch: byte(idx % 2), Global: 20, Fields: []ref.FieldDef{{Num: 3, Size: 1, Base: 0x02}, {Num: 200, Size: 1, Base: 0x02}}},
			ref.Record{IsDef: true, Local: 2, Arch: byte(idx % 2), Global: 0xFF01, Fields: []ref.FieldDef{{Num: 1, Size: 1, Base: 0x02}}})
		for k := 0; k < n; k++ {
			plan.Records = append(plan.Records, ref.Record{Local: 1, Data: [][]byte{{byte(60 + k%100)}, {byte(k)}}}, ref.Record{Local: 2, Data: [][]byte{{byte(k)}}})
		}
	default:
		want := []int{6000, 20000, 6000}[idx-3]
		n := 0
		known := lib.KnownMesgs()
		for _, g := range known {
			if g == 0 || n >= want {
				continue
			}
			def := ref.Record{IsDef: true, Local: byte(1 + int(g)%15), Arch: byte(g % 2), Global: g}
			var data [][]byte
			for num := 0; num < 253 && len(def.Fields) < 250 && n < want; num++ {
				if prof.Field(g, byte(num)) != nil {
					continue
				}
				def.Fields = append(def.Fields, ref.FieldDef{Num: byte(num), Size: 1, Base: 0x0D})
				data = append(data, []byte{rng.Byte()})
				n++
			}
			plan.Records = append(plan.Records, def)
			for k := 0; k <= int(g)%2+int(idx-3)%2; k++ {
				plan.Records = append(plan.Records, ref.Record{Local: def.Local, Data: data})
			}
		}
	}
	b := plan.Bytes()
	c.SetInflight(b[:minInt(len(b), 4096)])
	ex, err := lib.Expect(plan, lib.ExpectOpts{})
	if err != nil || ex.Fail {
		c.Violation(b[:256], "harness: model failed on the many-items plan: %v", err)
		return
	}
	f, derr, o := lib.GuardedDecode(b, optionList(7, &countingLogger{}, idx)...)
	c.Eval()
	if o.Panicked || o.Hang || derr != nil {
		c.Violation(b[:minInt(len(b), 4096)], "Decode with all options failed on a well-formed file with %d unknown messages / %d unknown fields: %v %s", len(ex.Content.UnknownMessages), len(ex.Content.UnknownFields), derr, o.Panic)
		return
	}
	got := lib.FileContent(f)
	if fmt.Sprint(got.UnknownMessages) != fmt.Sprint(ex.Content.UnknownMessages) {
		c.Violation(b[:minInt(len(b), 4096)], "unknown-message list incomplete or wrong: %d entries reported, the file has %d distinct unknown message numbers (first difference: %s)", len(got.UnknownMessages), len(ex.Content.UnknownMessages), firstListDiff(fmt.Sprint(got.UnknownMessages), fmt.Sprint(ex.Content.UnknownMessages)))
		return
	}
	if fmt.Sprint(got.UnknownFields) != fmt.Sprint(ex.Content.UnknownFields) {
		c.Violation(b[:minInt(len(b), 4096)], "unknown-field list incomplete or wrong: %d entries reported, the file has %d distinct (message, unlisted field) pairs (first difference: %s)", len(got.UnknownFields), len(ex.Content.UnknownFields), firstListDiff(fmt.Sprint(got.UnknownFields), fmt.Sprint(ex.Content.UnknownFields)))
		return
	}
	c.Count("distinct_unknown_messages_in_one_file", int64(len(ex.Content.UnknownMessages)))
	c.Count("distinct_unknown_fields_in_one_file", int64(len(ex.Content.UnknownFields)))
	c.Nontrivial(b[:minInt(len(b), 4096)], []byte{byte(idx)})
}

func firstListDiff(a, b string) string {
	i := 0
	for i < len(a) && i < len(b) && a[i] == b[i] {
		i++
	}
	lo := i - 30
	if lo < 0 {
		lo = 0
	}
	return fmt.Sprintf("reported ...%s / expected ...%s", a[lo:minInt(len(a), i+40)], b[lo:minInt(len(b), i+40)])
}

var (
	stderrMu   sync.Mutex
	devNullOut *os.File
)

// withStderrDiscarded runs f while os.Stderr names the null device (WithStdLogger builds its
// logger on os.Stderr at the moment the option is applied).
func withStderrDiscarded(f func()) {
	stderrMu.Lock()
	defer stderrMu.Unlock()
	if devNullOut == nil {
		devNullOut, _ = os.OpenFile(os.DevNull, os.O_WRONLY, 0)
	}
	if devNullOut == nil {
		return
	}
	saved := os.Stderr
	os.Stderr = devNullOut
	defer func() { os.Stderr = saved }()
	f()
}
