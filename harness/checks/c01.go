package checks

import (
	"fmt"
	"sort"
	"sync"

	"github.com/tormoder/fit"

	"verifharness/lib"
	"verifharness/ref"
)

func init() { registrars = append(registrars, registerC01) }

func registerC01() {
	lib.Register(&lib.Check{
		ID:    "C01",
		Level: "exploration",
		Rule: "family fielddefs (complete enumeration): for each (message, field number) pair - quick: every known message x (each of its profile field numbers + 2 absent numbers); " +
			"thorough: every known message and 8 unknown message numbers x all 256 field numbers - every base-type byte 0..255 x every size 0..255 x both byte orders: a stream " +
			"(header, file_id, the one-field definition, one matching data record; two more data patterns, all-0xFF and NUL-rich, if the definition was accepted) is decoded under " +
			"a panic/hang guard; every rejected definition with a known base type is retried on a slot that already holds the same field definition for an unknown message; every 61st stream also goes through all six entry points with 1-byte and greedy chunkers. Family mutants: PRNG structured mutations (bit/byte flips, " +
			"splices, truncation, extension, header edits, definition edits, record-header edits, size lies; CRC recomputed for half) of device files and model streams, each fed to the six " +
			"entry points under three chunkers. Family monsters: well-formed streams whose definitions have up to 255 fields and 255 developer fields of up to 255 bytes, half of them with a total record size placed at a 16-bit boundary (65535, 65536, 65537, 64 KiB +- 300, 128 KiB - 1100...), under whole-buffer and short-read chunkers. Family sizes: valid and mutated small files whose header data-size field is set to boundary values (0, 1, the true size +-k, 2^31-1, 2^31, 2^32-1, ...) with and without matching CRCs, through the six entry points. The mutants, multidefs and sizes families are run a second time in a GOARCH=386 binary (32-bit int) when the host can execute it. Family zones: activity files whose local timestamps are every quarter hour from -30 h to +30 h (and seconds to either side, and far-out values) away from the UTC reference. Family devdata: streams whose developer fields are announced by developer_data_id and field_description messages (base type id: any byte). Family multidefs: PRNG streams of 1-4 definitions with 1-8 ARBITRARY field definitions each (any field number, size, base byte; " +
			"developer-field lists; known and unknown messages; occasionally an illegal arch byte) followed by data records of exactly the defined sizes (some behind compressed headers), " +
			"framed with correct CRCs, decoded with and without options (formatting logger, unknown lists) under two chunkers. family scratch: records that leave no zero byte in any buffer a decoder may keep (255 native / developer definition entries, 255-byte fields), then each string field of the profile at sizes 1-255 without terminator, four entry points, three chunkers. family chain-leftovers: chains whose first member ends with all 16 local message types defined (known and unknown messages, developer fields, both byte orders) and whose second member has records - normal and compressed headers - on slots it never defined itself, before / between / after its file_id definition and record, through DecodeChained with and without options and alone through every entry point. A case is one stream; in family fielddefs each is distinct by construction and counted non-trivial because it reaches the definition validator; " +
			"mutants are distinct by digest",
		Assume:        []string{"a hang is decided logically (more than 10000 reads after the input ended) or by the doubly-confirmed wall-clock watchdog"},
		MinNontrivial: 1000000,
		Families386:   []string{"mutants", "multidefs", "sizes", "monsters", "zones", "devdata"},
		Families: []lib.Family{
			{Name: "fielddefs", N: func(t string) uint64 { return uint64(len(c01Pairs(t))) }, Run: c01FieldDefs},
			{Name: "mutants", N: func(t string) uint64 { return tierN(t, 60000, 3000000) }, Run: c01Mutant},
			{Name: "monsters", N: func(t string) uint64 { return tierN(t, 1500, 60000) }, Run: c01Monsters},
			{Name: "sizes", N: func(t string) uint64 { return tierN(t, 4000, 100000) }, Run: c01Sizes},
			{Name: "multidefs", N: func(t string) uint64 { return tierN(t, 150000, 5000000) }, Run: c01MultiDefs},
			{Name: "zones", N: func(t string) uint64 { return uint64(len(zoneGridOffsets())) * 2 }, Run: c01Zones},
			{Name: "devdata", N: func(t string) uint64 { return tierN(t, 20000, 600000) }, Run: c01DevData},
			{Name: "scratch", N: func(t string) uint64 { return tierN(t, 6000, 200000) }, Run: c01Scratch},
			{Name: "chain-leftovers", N: func(t string) uint64 { return tierN(t, 6000, 200000) }, Run: c01ChainLeftovers},
		},
		Exhaustive: func(t string) bool { return true },
		Finish: func(c *lib.Ctx, cov map[string]interface{}) {
			cov["exhaustive_subspace"] = "single-field definitions: " + map[string]string{"quick": "known messages x (profile field numbers + 2 absent) x 256 base bytes x 256 sizes x 2 byte orders", "thorough": "(101 known + 8 unknown messages) x 256 field numbers x 256 base bytes x 256 sizes x 2 byte orders"}[c.Tier]
		},
	})
}

type c01Pair struct {
	mesg uint16
	num  byte
}

var (
	c01PairsOnce  sync.Once
	c01PairsQuick []c01Pair
	c01PairsFull  []c01Pair
)

func c01Pairs(tier string) []c01Pair {
	c01PairsOnce.Do(func() {
		prof := lib.Profile()
		for _, m := range lib.KnownMesgs() {
			have := map[byte]bool{}
			for _, pf := range prof.ByMesg[m] {
				c01PairsQuick = append(c01PairsQuick, c01Pair{m, pf.Num})
				have[pf.Num] = true
			}
			absent := 0
			for _, n := range []byte{255, 253, 254, 250, 200, 128, 77, 0, 1, 2, 3, 4, 5, 6, 7, 8} {
				if !have[n] && absent < 2 {
					c01PairsQuick = append(c01PairsQuick, c01Pair{m, n})
					absent++
				}
			}
			for n := 0; n < 256; n++ {
				c01PairsFull = append(c01PairsFull, c01Pair{m, byte(n)})
			}
		}
		unk := lib.UnknownMesgNums()
		sort.Slice(unk, func(i, j int) bool { return unk[i] < unk[j] })
		for i, m := range unk {
			if i >= 8 {
				break
			}
			for n := 0; n < 256; n++ {
				c01PairsFull = append(c01PairsFull, c01Pair{m, byte(n)})
			}
		}
	})
	if tier == "thorough" {
		return c01PairsFull
	}
	return c01PairsQuick
}

// Fast table CRC for building billions of streams; validated against the
// bit-serial reference at start-up.
var crcTab [256]uint16

func init() {
	for i := 0; i < 256; i++ {
		crcTab[i] = ref.CRCUpdate(0, byte(i))
	}
	probe := []byte("fast crc self check 0123456789")
	if fastCRC(0, probe) != ref.CRC(probe) {
		panic("harness: fast CRC disagrees with the reference CRC")
	}
}

func fastCRC(c uint16, b []byte) uint16 {
	for _, x := range b {
		c = c>>8 ^ crcTab[byte(c)^x]
	}
	return c
}

var fieldDefOpts = []fit.DecodeOption{fit.WithUnknownMessages(), fit.WithLogger(&countingLogger{}), fit.WithUnknownFields()}

func c01FieldDefs(c *lib.Ctx, idx uint64) {
	pair := c01Pairs(c.Tier)[idx]
	// Prefix: 14-byte header, file_id definition (type field only) and data (activity).
	buf := make([]byte, 0, 1200)
	// the header's profile version varies with the pair: older than, equal to and newer than the library's own
	pv := []uint16{2115, 21158, 2216, 100}[idx%4]
	buf = append(buf, 14, 0x20, byte(pv), byte(pv>>8), 0, 0, 0, 0, '.', 'F', 'I', 'T', 0, 0)
	// def local 0: file_id with type (0, size 1, enum) and manufacturer (1, size 2, uint16); data:
	// type = activity, the manufacturer number varies with the pair (0..511 and 65535)
	manu := uint16(idx % 513)
	if manu == 512 {
		manu = 0xFFFF
	}
	buf = append(buf, 0x40, 0, 0, 0, 0, 2, 0, 1, 0, 1, 2, 0x84)
	buf = append(buf, 0x00, 4, byte(manu), byte(manu>>8))
	prefix := len(buf)
	accepted, rejected, nv := int64(0), int64(0), 0
	var accByBase [256]int64
	errTexts := map[string]bool{}
	var patterns [3][255]byte
	for i := range patterns[0] {
		patterns[0][i] = byte(i*37 + 11)
		patterns[1][i] = 0xFF
		patterns[2][i] = byte(i % 5) // NUL-rich ascending
	}
	build := func(arch, base, size byte, pat int, ndata int) []byte {
		b := buf[:prefix]
		b = append(b, 0x41, 0, arch)
		if arch == 0 {
			b = append(b, byte(pair.mesg), byte(pair.mesg>>8))
		} else {
			b = append(b, byte(pair.mesg>>8), byte(pair.mesg))
		}
		b = append(b, 1, pair.num, size, base)
		for k := 0; k < ndata; k++ {
			b = append(b, 0x01)
			b = append(b, patterns[(pat+k)%3][:size]...)
		}
		n := len(b) - 14
		b[4], b[5] = byte(n), byte(n>>8)
		hc := fastCRC(0, b[:12])
		b[12], b[13] = byte(hc), byte(hc>>8)
		fc := fastCRC(0, b)
		return append(b, byte(fc), byte(fc>>8))
	}
	// buildAfterOther: the same one-field definition first for an unknown message (with a data
	// record), then for the message under test on the same local type, then data.
	buildAfterOther := func(arch, base, size byte) []byte {
		b := buf[:prefix]
		for _, g := range []uint16{0xFF00, pair.mesg} {
			b = append(b, 0x41, 0, arch)
			if arch == 0 {
				b = append(b, byte(g), byte(g>>8))
			} else {
				b = append(b, byte(g>>8), byte(g))
			}
			b = append(b, 1, pair.num, size, base)
			b = append(b, 0x01)
			b = append(b, patterns[0][:size]...)
		}
		n := len(b) - 14
		b[4], b[5] = byte(n), byte(n>>8)
		hc := fastCRC(0, b[:12])
		b[12], b[13] = byte(hc), byte(hc>>8)
		fc := fastCRC(0, b)
		return append(b, byte(fc), byte(fc>>8))
	}
	redefs := int64(0)
	count := int64(0)
	for arch := byte(0); arch < 2; arch++ {
		for base := 0; base < 256; base++ {
			c.SetInflight([]byte(fmt.Sprintf("fielddefs message %d field %d arch %d base %#02x (all sizes)", pair.mesg, pair.num, arch, base)))
			c.Tick()
			for size := 0; size < 256; size++ {
				b := build(arch, byte(base), byte(size), 0, 1)
				r := lib.NewReader(b, lib.Chunker{Kind: "whole"})
				var res lib.CallResult
				// for every fourth pair the decodes run with a logger and the unknown-item options
				var dopts []fit.DecodeOption
				if idx%4 == 3 {
					dopts = fieldDefOpts
				}
				o := lib.Guard(func() { res = lib.Call("Decode", r, dopts...) })
				count++
				if o.Panicked || o.Hang {
					nv++
					if nv <= 3 {
						c.Violation(b, "Decode panicked/hung (hang=%v) on a single-field definition: message %d field %d base type %#02x size %d arch %d: %s\n%s", o.Hang, pair.mesg, pair.num, base, size, arch, o.Panic, o.Stack)
					}
					continue
				}
				if res.Err != nil {
					rejected++
					if len(errTexts) < 200 {
						errTexts[maskErr(res.Err.Error())] = true
					}
					// A rejected definition must stay rejected (or be decoded safely) when the same
					// slot already holds an identically shaped definition of another message that
					// admits it: validation may not depend on the slot's history.
					if _, known := ref.BaseByCode(byte(base)); known {
						b3 := buildAfterOther(arch, byte(base), byte(size))
						o4 := lib.Guard(func() { lib.Call("Decode", lib.NewReader(b3, lib.Chunker{Kind: "whole"})) })
						count++
						redefs++
						if o4.Panicked || o4.Hang {
							nv++
							if nv <= 3 {
								c.Violation(b3, "Decode panicked/hung when a definition (message %d field %d base %#02x size %d arch %d) replaces an identically shaped definition of an unknown message on the same local type: %s\n%s", pair.mesg, pair.num, base, size, arch, o4.Panic, o4.Stack)
							}
						}
					}
				} else {
					accepted++
					accByBase[base]++
					// Two more data patterns, three records in one stream.
					b2 := build(arch, byte(base), byte(size), 1, 2)
					o2 := lib.Guard(func() { res = lib.Call("Decode", lib.NewReader(b2, lib.Chunker{Kind: "whole"})) })
					count++
					if o2.Panicked || o2.Hang {
						nv++
						if nv <= 3 {
							c.Violation(b2, "Decode panicked/hung on an accepted single-field definition with all-0xFF / NUL-rich data: message %d field %d base %#02x size %d arch %d: %s\n%s", pair.mesg, pair.num, base, size, arch, o2.Panic, o2.Stack)
						}
						continue
					}
				}
				if (int(arch)*65536+base*256+size)%61 == 0 {
					for _, ep := range lib.EntryPoints {
						for _, ch := range []lib.Chunker{{Kind: "one"}, {Kind: "greedy"}} {
							o3 := lib.Guard(func() { lib.Call(ep, lib.NewReader(b, ch)) })
							count++
							if o3.Panicked || o3.Hang {
								nv++
								if nv <= 3 {
									c.Violation(b, "%s (%s reads) panicked/hung: message %d field %d base %#02x size %d arch %d: %s", ep, ch, pair.mesg, pair.num, base, size, arch, o3.Panic)
								}
							}
						}
					}
				}
			}
		}
	}
	c.EvalN(count)
	c.NontrivialN(131072)
	c.Count("definitions_accepted", accepted)
	c.Count("definitions_rejected", rejected)
	c.Count("rejected_definitions_retried_after_other_definition_on_same_slot", redefs)
	for base, n := range accByBase {
		if n > 0 {
			c.Count(fmt.Sprintf("accepted_base_%#02x", base), n)
		}
	}
	for t := range errTexts {
		c.Count("errtext:"+t, 1)
	}
	if idx == 0 {
		c.Sample("fielddef", 1, map[string]interface{}{"message": pair.mesg, "field": pair.num, "streams": count, "accepted": accepted, "example_hex": fmt.Sprintf("%x", build(0, 0x84, 2, 0, 1))})
	}
}

func maskErr(s string) string {
	out := make([]byte, 0, len(s))
	prev := false
	for i := 0; i < len(s) && len(out) < 90; i++ {
		ch := s[i]
		if ch >= '0' && ch <= '9' {
			if !prev {
				out = append(out, '#')
			}
			prev = true
			continue
		}
		prev = false
		out = append(out, ch)
	}
	return string(out)
}

// mutate applies one structured mutation.
func mutate(rng *lib.Rand, b []byte) []byte {
	if len(b) < 16 {
		return append(b, rng.Bytes(8)...)
	}
	hs := int(b[0])
	if hs >= len(b) || hs < 12 {
		hs = 12
	}
	switch rng.Intn(12) {
	case 0: // bit flip
		b[rng.Intn(len(b))] ^= 1 << uint(rng.Intn(8))
	case 1: // byte set
		b[rng.Intn(len(b))] = rng.Byte()
	case 2: // interesting byte
		b[rng.Intn(len(b))] = []byte{0, 1, 0x7F, 0x80, 0xFF, 0x40, 0x20, 0x0F, 0x07, 0x0D}[rng.Intn(10)]
	case 3: // truncate
		b = b[:rng.Intn(len(b))]
	case 4: // extend
		b = append(b, rng.Bytes(1+rng.Intn(40))...)
	case 5: // splice: copy a chunk elsewhere
		n := 1 + rng.Intn(20)
		if len(b) > 2*n {
			src := rng.Intn(len(b) - n)
			dst := rng.Intn(len(b) - n)
			copy(b[dst:dst+n], append([]byte{}, b[src:src+n]...))
		}
	case 6: // header field edit
		pos := rng.Intn(hs)
		b[pos] = rng.Byte()
	case 7: // data size lie
		d := int(b[4]) | int(b[5])<<8
		d += rng.Intn(9) - 4
		b[4], b[5] = byte(d), byte(d>>8)
		if rng.Chance(1, 4) {
			b[6], b[7] = rng.Byte(), rng.Byte()
		}
	case 8: // insert bytes
		pos := hs + rng.Intn(len(b)-hs)
		ins := rng.Bytes(1 + rng.Intn(6))
		b = append(b[:pos], append(ins, b[pos:]...)...)
	case 9: // delete bytes
		pos := hs + rng.Intn(len(b)-hs)
		n := 1 + rng.Intn(6)
		if pos+n < len(b) {
			b = append(b[:pos], b[pos+n:]...)
		}
	case 10: // definition-looking edit: find a 0x4x byte in the record area and edit what follows
		for tries := 0; tries < 30; tries++ {
			pos := hs + rng.Intn(len(b)-hs)
			if b[pos]&0xC0 == 0x40 && pos+9 < len(b) {
				switch rng.Intn(6) {
				case 0:
					b[pos+2] = rng.Byte() // arch
				case 1:
					b[pos+5] = rng.Byte() // field count
				case 2:
					b[pos+7] = rng.Byte() // first field size
				case 3:
					b[pos+8] = rng.Byte() // first field base type
				case 4:
					b[pos] |= 0x20 // developer data flag
				default:
					b[pos+3], b[pos+4] = rng.Byte(), rng.Byte() // global number
				}
				break
			}
		}
	default: // record header edit
		pos := hs + rng.Intn(len(b)-hs)
		b[pos] = []byte{0x80, 0xE0, 0x9F, 0x40, 0x4F, 0x60, 0x10, 0x0F, 0xFF}[rng.Intn(9)] | byte(rng.Intn(4))
	}
	return b
}

var (
	c01SeedOnce sync.Once
	c01Seeds    [][]byte
)

func c01Mutant(c *lib.Ctx, idx uint64) {
	c01SeedOnce.Do(func() {
		for _, cf := range Corpus() {
			if len(cf.Data) <= 60000 {
				c01Seeds = append(c01Seeds, cf.Data)
			}
		}
		crashers := []string{}
		_ = crashers
	})
	rng := lib.NewRand("C01.mutants", idx)
	var b []byte
	if rng.Chance(1, 3) {
		b = append([]byte{}, c01Seeds[rng.Intn(len(c01Seeds))]...)
	} else {
		b = c07Plan(rng, idx).Bytes()
	}
	for k := 1 + rng.Intn(4); k > 0; k-- {
		b = mutate(rng, b)
	}
	if len(b) >= 16 && rng.Chance(1, 2) {
		// Recompute both CRCs so that the parser is reached with "valid" framing.
		if b[0] == 14 && len(b) > 14 {
			hc := fastCRC(0, b[:12])
			b[12], b[13] = byte(hc), byte(hc>>8)
		}
		hs := int(b[0])
		ds := int(b[4]) | int(b[5])<<8 | int(b[6])<<16 | int(b[7])<<24
		if hs+ds+2 <= len(b) && hs+ds >= 0 && ds >= 0 {
			fc := fastCRC(0, b[:hs+ds])
			b[hs+ds], b[hs+ds+1] = byte(fc), byte(fc>>8)
		}
	}
	c.SetInflight(b)
	chunkers := []lib.Chunker{{Kind: "whole"}, {Kind: "one"}, {Kind: "rand", Size: 9, R: rng, Zero: true}}
	okAny := false
	for _, ep := range lib.EntryPoints {
		for _, ch := range chunkers {
			if ch.Kind == "one" && len(b) > 20000 {
				continue
			}
			var res lib.CallResult
			o := lib.Guard(func() { res = lib.Call(ep, lib.NewReader(b, ch)) })
			c.Eval()
			if o.Panicked || o.Hang {
				c.Violation(b, "%s (%s reads) panicked/hung (hang=%v) on a mutated stream of %d bytes: %s\n%s", ep, ch, o.Hang, len(b), o.Panic, o.Stack)
				return
			}
			if res.Err == nil {
				okAny = true
				c.Count("calls_ok_"+ep, 1)
			} else {
				c.Count("calls_error_"+ep, 1)
			}
		}
	}
	_ = okAny
	c.Nontrivial(b)
	c.Sample("mutant", 2, map[string]interface{}{"bytes": len(b), "hex_prefix": fmt.Sprintf("%x", b[:minInt(len(b), 48)])})
}

var knownBaseCodes = []byte{0x00, 0x01, 0x02, 0x83, 0x84, 0x85, 0x86, 0x07, 0x88, 0x89, 0x0A, 0x8B, 0x8C, 0x0D, 0x8E, 0x8F, 0x90}

// c01Zones: well-formed activity files whose local timestamps differ from the UTC reference by
// every quarter hour from -30 h to +30 h (and seconds to either side, and far-out values):
// whatever a decoder does with the difference (zone tables, caches), it must not panic.
func c01Zones(c *lib.Ctx, idx uint64) {
	off := zoneGridOffsets()[idx/2]
	b := zoneGridPlan(off, byte(idx%2)).Bytes()
	c.SetInflight(b)
	for _, ep := range []string{"Decode", "DecodeChained"} {
		var res lib.CallResult
		o := lib.Guard(func() {
			res = lib.Call(ep, lib.NewReader(b, lib.Chunker{Kind: "whole"}), optionList(int(idx%8), &countingLogger{}, idx)...)
		})
		c.Eval()
		if o.Panicked || o.Hang {
			c.Violation(b, "%s panicked/hung (hang=%v) on a well-formed file whose local timestamp is %d s away from its UTC reference: %s\n%s", ep, o.Hang, off, o.Panic, o.Stack)
			return
		}
		_ = res
	}
	c.Nontrivial(b)
	c.Count("zone_offsets_decoded", 1)
}

// c01DevData: streams in which every definition with developer fields is announced the way a
// device does it (developer_data_id, then a field_description per developer field giving index,
// field number and a base type id that may be any byte), followed by data: whatever a decoder
// does with the descriptions, it must not panic.
func c01DevData(c *lib.Ctx, idx uint64) {
	rng := lib.NewRand("C01.devdata", idx)
	ft := lib.FileTypes[idx%uint64(len(lib.FileTypes))].Type
	o := lib.GenOpts{FileType: ft, Records: 3 + rng.Intn(10), Locals: 1 + rng.Intn(3), Redefine: 40, BigEndian: 50, Unknown: 100, MaxFields: 3, DevDescribe: 100, Compressed: 10, NoTimeZero: true}
	b := lib.NewPlanGen(rng, o).Fill().Bytes()
	c.SetInflight(b)
	for _, ep := range []string{"Decode", "DecodeChained", "DecodeHeaderAndFileID"} {
		o := lib.Guard(func() {
			lib.Call(ep, lib.NewReader(b, lib.Chunker{Kind: []string{"whole", "one"}[idx/17%2]}), optionList(int(idx%8), &countingLogger{}, idx)...)
		})
		c.Eval()
		if o.Panicked || o.Hang {
			c.Violation(b, "%s panicked/hung (hang=%v) on a well-formed stream with described developer fields: %s\n%s", ep, o.Hang, o.Panic, o.Stack)
			return
		}
	}
	c.Nontrivial(b)
}

func c01MultiDefs(c *lib.Ctx, idx uint64) {
	rng := lib.NewRand("C01.multidefs", idx)
	known := lib.KnownMesgs()
	p := &ref.Plan{HeaderSize: 14, Proto: 0x20, ProfVer: 2115}
	if rng.Chance(1, 4) {
		p.HeaderSize = 12
	}
	ft := lib.FileTypes[idx%uint64(len(lib.FileTypes))].Type
	fid := ref.Record{IsDef: true, Local: 0, Global: 0, Fields: []ref.FieldDef{{Num: 0, Size: 1, Base: 0}}}
	fdata := ref.Record{Local: 0, Data: [][]byte{{ft}}}
	if rng.Chance(1, 2) {
		// the leading file_id with further fields, listed by the profile or not
		for k := 1 + rng.Intn(3); k > 0; k-- {
			bt := ref.BaseTypes[rng.Intn(len(ref.BaseTypes))]
			fd := ref.FieldDef{Num: byte(1 + rng.Intn(254)), Size: byte(bt.Size * (1 + rng.Intn(2))), Base: bt.Code}
			if rng.Chance(1, 2) {
				fid.Fields = append(fid.Fields, fd)
				fdata.Data = append(fdata.Data, rng.Bytes(int(fd.Size)))
			} else {
				fid.Fields = append([]ref.FieldDef{fd}, fid.Fields...)
				fdata.Data = append([][]byte{rng.Bytes(int(fd.Size))}, fdata.Data...)
			}
		}
	}
	p.Records = append(p.Records, fid, fdata)
	var defs [16]*ref.Record
	nd := 1 + rng.Intn(4)
	for d := 0; d < nd; d++ {
		r := ref.Record{IsDef: true, Local: byte(rng.Intn(5)), Arch: byte(rng.Intn(2))}
		if rng.Chance(1, 50) {
			r.Arch = rng.Byte()
		}
		if rng.Chance(7, 10) {
			r.Global = known[rng.Intn(len(known))]
		} else {
			r.Global = uint16(rng.U64())
		}
		nf := 1 + rng.Intn(8)
		if rng.Chance(1, 20) {
			nf = 0
		}
		for k := 0; k < nf; k++ {
			fd := ref.FieldDef{Num: rng.Byte(), Base: knownBaseCodes[rng.Intn(len(knownBaseCodes))]}
			if rng.Chance(1, 2) {
				// a field number the message really has
				if fs := lib.Profile().ByMesg[r.Global]; len(fs) > 0 {
					fd.Num = fs[rng.Intn(len(fs))].Num
				}
			}
			if rng.Chance(1, 8) {
				fd.Base = rng.Byte()
			}
			switch rng.Intn(4) {
			case 0:
				fd.Size = byte(rng.Intn(9))
			case 1:
				fd.Size = byte(rng.Intn(256))
			default:
				if bt, ok := ref.BaseByCode(fd.Base); ok {
					fd.Size = byte(bt.Size * (1 + rng.Intn(4)))
				} else {
					fd.Size = byte(rng.Intn(16))
				}
			}
			r.Fields = append(r.Fields, fd)
		}
		if rng.Chance(1, 4) {
			r.HasDev = true
			for k := rng.Intn(4); k > 0; k-- {
				r.Dev = append(r.Dev, ref.DevDef{Num: rng.Byte(), Size: byte(rng.Intn(40)), Idx: rng.Byte()})
			}
		}
		p.Records = append(p.Records, r)
		cp := r
		defs[r.Local] = &cp
		for n := rng.Intn(4); n > 0; n-- {
			dr := ref.Record{Local: r.Local}
			if r.Local < 4 && rng.Chance(1, 3) {
				dr.Compressed = true
				dr.TimeOffset = byte(rng.Intn(32))
			}
			for _, f := range r.Fields {
				dr.Data = append(dr.Data, rng.Bytes(int(f.Size)))
			}
			for _, f := range r.Dev {
				dr.Data = append(dr.Data, rng.Bytes(int(f.Size)))
			}
			p.Records = append(p.Records, dr)
		}
	}
	b := p.Bytes()
	c.SetInflight(b)
	ok := 0
	for variant := 0; variant < 3; variant++ {
		ch := []lib.Chunker{{Kind: "whole"}, {Kind: "one"}, {Kind: "rand", Size: 5, R: rng, Zero: true}}[variant]
		var opts []fit.DecodeOption
		if variant > 0 {
			opts = optionList(7, &countingLogger{}, idx)
		}
		var res lib.CallResult
		o := lib.Guard(func() { res = lib.Call("Decode", lib.NewReader(b, ch), opts...) })
		c.Eval()
		if o.Panicked || o.Hang {
			c.Violation(b, "Decode (%s reads, options %v) panicked/hung (hang=%v) on a stream of arbitrary multi-field definitions: %s\n%s", ch, variant > 0, o.Hang, o.Panic, o.Stack)
			return
		}
		if res.Err == nil {
			ok++
		}
	}
	if ok > 0 {
		c.Count("multidef_streams_accepted", 1)
	} else {
		c.Count("multidef_streams_rejected", 1)
	}
	c.Nontrivial(b)
}

// c01Sizes: the 32-bit data-size field of the header at its boundaries.
func c01Sizes(c *lib.Ctx, idx uint64) {
	rng := lib.NewRand("C01.sizes", idx)
	b := c07Plan(rng, idx).Bytes()
	if len(b) > 4000 {
		b = b[:4000]
	}
	hs := int(b[0])
	trueSize := uint32(len(b) - hs - 2)
	sizes := []uint32{0, 1, 2, trueSize - 1, trueSize + 1, trueSize + 2, trueSize + 4096, 4095, 4096, 4097, 65535, 65536, 1<<31 - 1, 1 << 31, 1<<31 + 1, 1<<32 - 1, 1<<32 - 2, 1<<32 - 14, 1<<32 - 16, uint32(rng.U64())}
	ds := sizes[idx%uint64(len(sizes))]
	b[4], b[5], b[6], b[7] = byte(ds), byte(ds>>8), byte(ds>>16), byte(ds>>24)
	if hs == 14 {
		hc := fastCRC(0, b[:12])
		b[12], b[13] = byte(hc), byte(hc>>8)
		if rng.Chance(1, 4) {
			b[12], b[13] = 0, 0
		}
	}
	c.SetInflight(b)
	for _, ep := range lib.EntryPoints {
		for _, ch := range []lib.Chunker{{Kind: "whole"}, {Kind: "fixed", Size: 5}} {
			o := lib.Guard(func() { lib.Call(ep, lib.NewReader(b, ch)) })
			c.Eval()
			if o.Panicked || o.Hang {
				c.Violation(b, "%s (%s reads) panicked/hung (hang=%v) on a file whose header announces a data size of %d (%#x) bytes: %s\n%s", ep, ch, o.Hang, ds, ds, o.Panic, o.Stack)
				return
			}
		}
	}
	c.Count(fmt.Sprintf("data_size_field_%s", sizeClass(ds, trueSize)), 1)
	c.Nontrivial(b)
}

func sizeClass(ds, t uint32) string {
	switch {
	case ds == t:
		return "true"
	case ds >= 1<<31:
		return "2^31_and_above"
	case ds > t:
		return "too_large"
	default:
		return "too_small"
	}
}

// c01Monsters: very large records.
// c01StringFields: every string field of the profile (plain and array-of-strings).
var c01StringFieldsOnce sync.Once
var c01StringFieldList []*ref.PField

func c01StringFields() []*ref.PField {
	c01StringFieldsOnce.Do(func() {
		prof := lib.Profile()
		var ms []int
		for m := range prof.ByMesg {
			ms = append(ms, int(m))
		}
		sort.Ints(ms)
		for _, m := range ms {
			for _, pf := range prof.ByMesg[uint16(m)] {
				if ref.BaseTypes[pf.Base].Code == 0x07 {
					c01StringFieldList = append(c01StringFieldList, pf)
				}
			}
		}
	})
	return c01StringFieldList
}

// c01Scratch: what an earlier record leaves behind in the decoder must not matter to a later
// one. First something that fills every scratch byte a decoder may keep with non-zero values -
// a definition with 255 fields (and 255 developer fields) none of whose bytes is zero, a data
// record with 255-byte fields without a zero byte - then a record whose string or string-array
// field fills its size exactly, without a terminator (sizes 1..255), or ends in the middle of
// a multi-byte character. No entry point may panic.
func c01Scratch(c *lib.Ctx, idx uint64) {
	rng := lib.NewRand("C01.scratch", idx)
	sf := c01StringFields()
	if len(sf) == 0 {
		return
	}
	pf := sf[int(idx)%len(sf)]
	prof := lib.Profile()
	ft := byte(4)
	for _, t := range lib.FileTypes {
		if prof.Hosted(t.Type, pf.Mesg) {
			ft = t.Type
			break
		}
	}
	arch := byte(idx / uint64(len(sf)) % 2)
	plan := &ref.Plan{HeaderSize: []byte{14, 12}[rng.Intn(2)], Proto: 0x20, ProfVer: 2115}
	plan.Records = append(plan.Records,
		ref.Record{IsDef: true, Local: 0, Arch: arch, Global: 0, Fields: []ref.FieldDef{{Num: 0, Size: 1, Base: 0}}},
		ref.Record{Local: 0, Data: [][]byte{{ft}}})
	nonzero := func(n int, fill byte) []byte {
		b := make([]byte, n)
		for i := range b {
			b[i] = fill
			if fill == 0 {
				b[i] = byte(1 + rng.Intn(255))
			}
		}
		return b
	}
	dirt := int(idx / uint64(2*len(sf)) % 5)
	switch dirt {
	case 0, 1, 2:
		// 255 field definitions, no zero byte among the 765: numbers 1..255, non-zero size, a base
		// type code other than 0 (uint8 / byte / string); with developer fields on top for dirt 2
		d := ref.Record{IsDef: true, Local: 5, Arch: arch, Global: 0xFF01}
		base := []byte{0x02, 0x0D, 0x07}[rng.Intn(3)]
		for n := 1; n <= 255; n++ {
			d.Fields = append(d.Fields, ref.FieldDef{Num: byte(n), Size: byte(1 + rng.Intn(3)), Base: base})
		}
		if dirt == 2 {
			d.HasDev = true
			for n := 1; n <= 255; n++ {
				d.Dev = append(d.Dev, ref.DevDef{Num: byte(n), Size: byte(1 + rng.Intn(2)), Idx: byte(1 + rng.Intn(254))})
			}
		}
		plan.Records = append(plan.Records, d)
		if dirt == 1 {
			r := ref.Record{Local: 5}
			for _, f := range d.Fields {
				r.Data = append(r.Data, nonzero(int(f.Size), 0))
			}
			plan.Records = append(plan.Records, r)
		}
	case 3:
		// a record of an unknown message: three byte fields of 255 bytes without a zero byte
		plan.Records = append(plan.Records,
			ref.Record{IsDef: true, Local: 5, Arch: arch, Global: 0xFF02, Fields: []ref.FieldDef{{Num: 1, Size: 255, Base: 0x0D}, {Num: 2, Size: 255, Base: 0x07}, {Num: 3, Size: 255, Base: 0x0D}}},
			ref.Record{Local: 5, Data: [][]byte{nonzero(255, 0xFF), nonzero(255, 'A'), nonzero(255, 0)}})
	case 4:
		// the victim's own message first with the field at 255 bytes, all of them letters
		plan.Records = append(plan.Records,
			ref.Record{IsDef: true, Local: 5, Arch: arch, Global: pf.Mesg, Fields: []ref.FieldDef{{Num: pf.Num, Size: 255, Base: 0x07}}},
			ref.Record{Local: 5, Data: [][]byte{nonzero(255, 'Z')}})
	}
	// the victim: the string field at a size it fills exactly
	sizes := []int{1, 2, 3, 4, 7, 8, 15, 16, 17, 31, 32, 33, 63, 64, 65, 127, 128, 129, 200, 253, 254, 255, int(pf.Length), int(pf.Length) + 1}
	sz := sizes[rng.Intn(len(sizes))]
	if sz < 1 || sz > 255 {
		sz = 1 + rng.Intn(255)
	}
	var data []byte
	switch rng.Intn(5) {
	case 0:
		data = nonzero(sz, 'x')
	case 1: // several strings, the last one without a terminator
		data = nonzero(sz, 'y')
		for k := rng.Intn(4); k > 0 && sz > 2; k-- {
			data[rng.Intn(sz-1)] = 0
		}
	case 2: // ends in the middle of a multi-byte character
		data = nonzero(sz, 'z')
		copy(data[maxInt(0, sz-2):], "\xe6\x97")
	case 3:
		data = nonzero(sz, 0)
	default:
		data = nonzero(sz, 0xFF)
	}
	plan.Records = append(plan.Records,
		ref.Record{IsDef: true, Local: 6, Arch: arch, Global: pf.Mesg, Fields: []ref.FieldDef{{Num: pf.Num, Size: byte(sz), Base: 0x07}}},
		ref.Record{Local: 6, Data: [][]byte{data}},
		ref.Record{Local: 6, Data: [][]byte{nonzero(sz, 'q')}})
	b := plan.Bytes()
	c.SetInflight(b)
	for _, ep := range []string{"Decode", "DecodeChained", "CheckIntegrity", "DecodeHeaderAndFileID"} {
		var opts []fit.DecodeOption
		if rng.Chance(1, 3) && (ep == "Decode" || ep == "DecodeChained") {
			opts = optionList(7, &countingLogger{}, idx)
		}
		out := lib.Guard(func() {
			lib.Call(ep, lib.NewReader(b, lib.Chunker{Kind: []string{"whole", "one", "rand"}[rng.Intn(3)], Size: 300, R: rng}), opts...)
		})
		c.Eval()
		if out.Panicked || out.Hang {
			c.Violation(b, "%s panicked/hung on a well-formed stream in which message %d field %d (string, %d bytes, no terminator) follows records that leave no zero byte behind (kind %d): %s\n%s", ep, pf.Mesg, pf.Num, sz, dirt, out.Panic, out.Stack)
			return
		}
	}
	c.Count(fmt.Sprintf("scratch_dirt_kind_%d", dirt), 1)
	c.Nontrivial(b)
}

func c01Monsters(c *lib.Ctx, idx uint64) {
	rng := lib.NewRand("C01.monsters", idx)
	ft := lib.FileTypes[idx%uint64(len(lib.FileTypes))].Type
	o := lib.GenOpts{FileType: ft, Records: 2 + rng.Intn(4), Locals: 1 + rng.Intn(3), Redefine: 30, BigEndian: 50, Unknown: 30, MaxFields: 3, Monster: 1200}
	if rng.Chance(1, 2) {
		o.Mesgs = lib.HostedMesgs(ft)
	}
	plan := lib.NewPlanGen(rng, o).Fill()
	b := plan.Bytes()
	c.SetInflight(b[:minInt(len(b), 60000)])
	for _, ch := range []lib.Chunker{{Kind: "whole"}, {Kind: "rand", Size: 3000, R: rng}, {Kind: "fixed", Size: 255}} {
		for _, ep := range []string{"Decode", "DecodeChained", "CheckIntegrity"} {
			var res lib.CallResult
			out := lib.Guard(func() { res = lib.Call(ep, lib.NewReader(b, ch)) })
			c.Eval()
			if out.Panicked || out.Hang {
				c.Violation(b[:minInt(len(b), 60000)], "%s (%s reads) panicked/hung on a well-formed stream of %d bytes with very large records: %s\n%s", ep, ch, len(b), out.Panic, out.Stack)
				return
			}
			_ = res
		}
	}
	big := 0
	for i := range plan.Records {
		if !plan.Records[i].IsDef {
			n := 0
			for _, d := range plan.Records[i].Data {
				n += len(d)
			}
			if n > big {
				big = n
			}
		}
	}
	switch {
	case big >= 65536:
		c.Count("monster_record_64KiB_or_more", 1)
	case big >= 65000:
		c.Count("monster_record_just_below_64KiB", 1)
	case big >= 10000:
		c.Count("monster_record_10KB_or_more", 1)
	}
	c.Nontrivial(b[:minInt(len(b), 4096)], []byte(fmt.Sprint(len(b))))
}

// c01ChainLeftovers (round 13): a chain whose first member ends with all 16 local message types
// defined (profile messages and messages the profile does not know, some with developer
// fields, both byte orders), followed by a member that uses slots it never defined itself: data
// records (normal and compressed headers) on other slots than the one its file_id definition
// sits on, before and after the file_id record. Whatever a decoder keeps between the members of
// a chain, the second member is a stream with records on undefined slots - an error, never a
// panic - and the same holds for that member alone through every entry point.
func c01ChainLeftovers(c *lib.Ctx, idx uint64) {
	rng := lib.NewRand("C01.chain-leftovers", idx)
	a := lib.NewPlanGen(rng, lib.GenOpts{FileType: []byte{4, 6, 32, 15}[idx%4], Records: 6 + rng.Intn(12), Locals: 1 + rng.Intn(16), Unknown: 40, BigEndian: 30, Compressed: 20, HeaderSize: []byte{14, 12}[rng.Intn(2)]}).Fill()
	known := lib.KnownMesgs()
	for _, sl := range rng.Perm(16) {
		d := ref.Record{IsDef: true, Local: byte(sl), Arch: byte(rng.Intn(2))}
		if rng.Chance(1, 2) {
			d.Global = 0xFF00 | uint16(rng.Intn(256))
		} else {
			d.Global = known[rng.Intn(len(known))]
		}
		if d.Global == 0 {
			d.Global = 20
		}
		for k := rng.Intn(4); k > 0; k-- {
			d.Fields = append(d.Fields, ref.FieldDef{Num: byte(200 + rng.Intn(50)), Size: byte(1 + rng.Intn(4)), Base: 0x0D})
		}
		if rng.Chance(1, 4) {
			d.HasDev = true
			d.Dev = append(d.Dev, ref.DevDef{Num: byte(rng.Intn(4)), Size: byte(1 + rng.Intn(3)), Idx: 0})
		}
		a.Records = append(a.Records, d)
	}
	s1 := byte(rng.Intn(16))
	stray := func() ref.Record {
		sl := byte(rng.Intn(16))
		for sl == s1 {
			sl = byte(rng.Intn(16))
		}
		r := ref.Record{Local: sl}
		if rng.Chance(1, 4) {
			r.Local, r.Compressed, r.TimeOffset = sl&3, true, byte(rng.Intn(32))
		}
		for k := rng.Intn(4); k > 0; k-- {
			r.Data = append(r.Data, rng.Bytes(1+rng.Intn(6)))
		}
		return r
	}
	b := &ref.Plan{HeaderSize: []byte{14, 12}[rng.Intn(2)], Proto: []byte{0x20, 0x10}[rng.Intn(2)], ProfVer: 2000 + uint16(rng.Intn(300))}
	fidDef := ref.Record{IsDef: true, Local: s1, Global: 0, Fields: []ref.FieldDef{{Num: 0, Size: 1, Base: 0}}}
	fid := ref.Record{Local: s1, Data: [][]byte{{[]byte{4, 6, 32, 15}[rng.Intn(4)]}}}
	switch rng.Intn(4) {
	case 0: // the stray record comes first of all
		b.Records = append(b.Records, stray(), fidDef, fid)
	case 1: // between the file_id definition and its record
		b.Records = append(b.Records, fidDef, stray(), fid)
	case 2: // after the file_id
		b.Records = append(b.Records, fidDef, fid, stray())
	default: // no definition at all in this member
		b.Records = append(b.Records, stray(), stray())
	}
	for k := rng.Intn(3); k > 0; k-- {
		b.Records = append(b.Records, stray())
	}
	ab, bb := a.Bytes(), b.Bytes()
	chain := append(append([]byte{}, ab...), bb...)
	if rng.Chance(1, 3) {
		chain = append(chain, ab...)
	}
	c.SetInflight(chain)
	for oi, opts := range [][]fit.DecodeOption{nil, optionList(7, &countingLogger{}, idx)} {
		for _, ch := range []lib.Chunker{{Kind: "whole"}, {Kind: "rand", Size: 9, R: rng}} {
			var files []*fit.File
			var err error
			o := lib.Guard(func() { files, err = fit.DecodeChained(lib.NewReader(chain, ch), opts...) })
			c.Eval()
			if o.Panicked || o.Hang {
				c.Violation(chain, "DecodeChained (option set %d, %s reads) panicked/hung (hang=%v) on a chain whose second member has records on slots it never defined: %s\n%s", oi, ch, o.Hang, o.Panic, o.Stack)
				return
			}
			if err == nil {
				c.Count("chains_accepted", 1)
			} else {
				c.Count("chains_rejected", 1)
			}
			_ = files
		}
	}
	for _, ep := range lib.EntryPoints {
		o := lib.Guard(func() { lib.Call(ep, lib.NewReader(bb, lib.Chunker{Kind: "whole"})) })
		c.Eval()
		if o.Panicked || o.Hang {
			c.Violation(bb, "%s panicked/hung (hang=%v) on a stream with records on undefined slots: %s\n%s", ep, o.Hang, o.Panic, o.Stack)
			return
		}
	}
	c.Nontrivial(chain)
}
