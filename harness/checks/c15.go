package checks

import (
	"encoding/binary"
	"fmt"
	"os"
	"path/filepath"
	"reflect"
	"strconv"
	"time"

	"github.com/tormoder/fit"

	"verifharness/lib"
	"verifharness/ref"
)

func init() { registrars = append(registrars, registerC15) }

func registerC15() {
	lib.Register(&lib.Check{
		ID:    "C15",
		Level: "exploration",
		Rule: "every entry of the live lookup table (hook), every known message number and every member of the 17 file containers is examined; a case is one " +
			"(message, field) entry (static agreement of entry, struct field type and constructor value) and, dynamically, one stream carrying exactly that field at profile size " +
			"decoded under every container hosting the message (else Activity) and re-encoded when hosted; plus, per known message and hosting container, two streams in which the message arrives under a compressed timestamp header (zero-field definition; every other field defined and invalid) and then again under normal headers without a time: the carried time must land in the struct field the table gives for field 253 of the message under the compressed header and nowhere else; and per entry a definition with each of the 17 base types (three sizes, both byte orders, header profile version at and above the library's own): rejected, or decoded and re-encoded without a panic; the same probe also as a repeat of the field number after a conforming entry in one definition: no panic in Decode or re-Encode; non-trivial: the entry exists and was compared",
		Assume: []string{
			"the bundled SDK 21.40 workbook, read by the harness's own xlsx reader, is the independent source for field numbers and names; the 23 table entries newer than 21.40 are compared with ref/sdk21115.go, a list written down at development time and reviewed by hand against the SDK 21.115 profile (a pinned record, not a second derivation)",
		},
		MinNontrivial: 300,
		Shards:        1,
		Main:          c15Main,
		Exhaustive:    func(string) bool { return true },
	})
}

var (
	tTime = reflect.TypeOf(time.Time{})
	tLat  = reflect.TypeOf(fit.Latitude{})
	tLng  = reflect.TypeOf(fit.Longitude{})
)

// goKind returns the reflect.Kind a base type must be stored in.
func goKind(b int) reflect.Kind {
	switch b {
	case ref.BEnum, ref.BUint8, ref.BUint8z, ref.BByte:
		return reflect.Uint8
	case ref.BSint8:
		return reflect.Int8
	case ref.BSint16:
		return reflect.Int16
	case ref.BUint16, ref.BUint16z:
		return reflect.Uint16
	case ref.BSint32:
		return reflect.Int32
	case ref.BUint32, ref.BUint32z:
		return reflect.Uint32
	case ref.BString:
		return reflect.String
	case ref.BFloat32:
		return reflect.Float32
	case ref.BFloat64:
		return reflect.Float64
	case ref.BSint64:
		return reflect.Int64
	case ref.BUint64, ref.BUint64z:
		return reflect.Uint64
	}
	return reflect.Invalid
}

func c15Main(c *lib.Ctx) {
	prof := lib.Profile()
	entries := fit.VerifProfile()
	fl, tl, cl := fit.VerifTableLens()
	c.Count("table_entries", int64(len(entries)))
	c.Count("known_messages", int64(len(prof.Known)))
	bad := func(format string, args ...interface{}) { c.Violation(nil, format, args...) }

	// Known message numbers: in range of all three tables, with type and constructor.
	typeSeen := map[reflect.Type]uint16{}
	for _, m := range lib.KnownMesgs() {
		c.Eval()
		if int(m) >= fl || int(m) >= tl || int(m) >= cl {
			bad("known message %d is outside a table (fields %d, types %d, constructors %d)", m, fl, tl, cl)
			continue
		}
		t := fit.VerifMesgType(m)
		if t == nil || t.Kind() != reflect.Struct {
			bad("known message %d has no struct type", m)
			continue
		}
		if o, dup := typeSeen[t]; dup {
			bad("messages %d and %d share struct type %v", o, m, t)
		}
		typeSeen[t] = m
		nv := lib.Guard(func() {
			v := fit.VerifNewMesg(m)
			if !v.IsValid() || v.Kind() != reflect.Ptr || v.IsNil() || v.Elem().Type() != t {
				bad("constructor of message %d does not return *%v", m, t)
			}
		})
		if nv.Panicked {
			bad("constructor of message %d panicked: %s", m, nv.Panic)
		}
	}
	// Entries.
	perMesg := map[uint16][]fit.VerifField{}
	for _, e := range entries {
		perMesg[e.Mesg] = append(perMesg[e.Mesg], e)
		if !prof.Known[e.Mesg] {
			bad("table has an entry for message %d which is not in the known set", e.Mesg)
		}
	}
	for m, es := range perMesg {
		t := fit.VerifMesgType(m)
		if t == nil {
			continue
		}
		seenS := map[int]bool{}
		nv := fit.VerifNewMesg(m)
		for _, e := range es {
			c.Eval()
			name := fmt.Sprintf("message %d (%s) field %d", m, t.Name(), e.Num)
			if e.Num != e.Slot {
				bad("%s: entry stored at slot %d", name, e.Slot)
			}
			if e.Sindex < 0 || e.Sindex >= t.NumField() {
				bad("%s: struct index %d out of range (struct has %d fields)", name, e.Sindex, t.NumField())
				continue
			}
			if seenS[e.Sindex] {
				bad("%s: struct index %d designated twice", name, e.Sindex)
			}
			seenS[e.Sindex] = true
			kind, arr, base := ref.UnpackType(e.TypeBits)
			bt, okb := ref.BaseByIndex(base)
			if kind > ref.KLng || !okb || e.TypeBits>>9 != 0 {
				bad("%s: malformed type word %#x", name, e.TypeBits)
				continue
			}
			sf := t.Field(e.Sindex)
			ft := sf.Type
			if arr {
				if ft.Kind() != reflect.Slice {
					bad("%s: entry is an array, struct field %s is %v", name, sf.Name, ft)
					continue
				}
				ft = ft.Elem()
			} else if ft.Kind() == reflect.Slice {
				bad("%s: entry is scalar, struct field %s is %v", name, sf.Name, sf.Type)
				continue
			}
			switch kind {
			case ref.KTimeUTC, ref.KTimeLocal:
				if ft != tTime || base != ref.BUint32 {
					bad("%s: time kind needs time.Time/uint32, have %v/%s", name, ft, bt.Name)
				}
			case ref.KLat:
				if ft != tLat || base != ref.BSint32 {
					bad("%s: latitude kind needs fit.Latitude/sint32, have %v/%s", name, ft, bt.Name)
				}
			case ref.KLng:
				if ft != tLng || base != ref.BSint32 {
					bad("%s: longitude kind needs fit.Longitude/sint32, have %v/%s", name, ft, bt.Name)
				}
			default:
				if ft.Kind() != goKind(base) {
					bad("%s: base type %s needs Go kind %v, struct field %s is %v", name, bt.Name, goKind(base), sf.Name, ft)
				}
			}
			// Encoded size fits in one byte.
			if e.Length < 1 {
				bad("%s: length %d", name, e.Length)
			}
			if bt.Size*int(e.Length) > 255 {
				bad("%s: encoded size %d x %d exceeds 255", name, bt.Size, e.Length)
			}
			// Constructor value.
			if nv.IsValid() && !nv.IsNil() && nv.Elem().Type() == t {
				got := lib.ValOf(nv.Elem().Field(e.Sindex))
				var want ref.Val
				switch {
				case arr:
					want = ref.Val{K: 'a', Nil: true}
				case kind == ref.KTimeUTC || kind == ref.KTimeLocal:
					want = ref.TimeVal(0)
				case kind == ref.KLat:
					want = ref.Val{K: 'l', N: 0x7FFFFFFF, Inv: true}
				case kind == ref.KLng:
					want = ref.Val{K: 'g', N: 0x7FFFFFFF, Inv: true}
				case bt.Code == 0x07:
					want = ref.Str("")
				case bt.Float && bt.Size == 4:
					want = ref.Val{K: 'f', N: bt.Invalid}
				case bt.Float:
					want = ref.Val{K: 'd', N: bt.Invalid}
				case bt.Signed:
					want = ref.I(ref.SignExtend(bt.Invalid, bt.Size))
				default:
					want = ref.U(bt.Invalid)
				}
				if !got.Equal(want) {
					bad("%s: constructor initialises %s to %v, the invalid value is %v", name, sf.Name, got, want)
				}
			}
			c.Nontrivial([]byte(fmt.Sprintf("static %d.%d", m, e.Num)))
		}
		if len(es) != t.NumField() {
			bad("message %d (%s): %d table entries for %d struct fields", m, t.Name(), len(es), t.NumField())
		}
	}
	for _, m := range lib.KnownMesgs() {
		if t := fit.VerifMesgType(m); t != nil && t.NumField() > 0 && len(perMesg[m]) == 0 {
			bad("message %d (%s) has %d struct fields but no table entries", m, t.Name(), t.NumField())
		}
	}
	// Containers.
	for _, ft := range lib.FileTypes {
		for _, s := range prof.Files[ft.Type] {
			c.Eval()
			if s.Global == 0xFFFF || !prof.Known[s.Global] {
				bad("container %s member %s holds a message type that is not a known message", prof.FileNames[ft.Type], s.Name)
				continue
			}
			c.Count("container_members", 1)
		}
	}
	c15Workbook(c, perMesg)
	c15Dynamic(c, entries)
	c15Compressed(c)
	c15OtherBaseTypes(c, entries)
	c.Sample("entry", 1, map[string]interface{}{"message": 20, "field": 253, "struct_field": lib.FieldName(20, prof.Field(20, 253).Sindex), "type_word": prof.Field(20, 253).Raw})
}

// c15Workbook compares field numbers and names with the bundled 21.40 workbook.
func c15Workbook(c *lib.Ctx, perMesg map[uint16][]fit.VerifField) {
	path := filepath.Join(RepoDir(), "cmd/fitgen/internal/profile/testdata/21.40.xlsx")
	data, err := os.ReadFile(path)
	if err != nil {
		c.Inconclusive("cannot read %s: %v", path, err)
		return
	}
	wb, err := ref.ReadXLSX(data)
	if err != nil {
		c.Violation(nil, "harness: cannot parse %s: %v", path, err)
		return
	}
	types, err := wb.ProfileTypes()
	if err != nil {
		c.Violation(nil, "harness: %v", err)
		return
	}
	mesgNum := map[string]uint16{}
	for _, t := range types {
		if t.Name == "mesg_num" {
			for _, v := range t.Values {
				n, err := strconv.ParseInt(v.Value, 0, 32)
				if err == nil {
					mesgNum[v.Name] = uint16(n)
				}
			}
		}
	}
	rows, err := wb.ProfileRows()
	if err != nil {
		c.Violation(nil, "harness: %v", err)
		return
	}
	prof := lib.Profile()
	matched, absent := 0, 0
	seen := map[uint32]bool{}
	for _, r := range rows {
		if r.IsSubfield || !r.Enabled {
			continue
		}
		m, ok := mesgNum[r.Mesg]
		if !ok || !prof.Known[m] {
			continue
		}
		c.Eval()
		pf := prof.Field(m, byte(r.Num))
		if pf == nil {
			// A field enabled in 21.40's example product but not in the
			// compiled-in profile: the product selection differs; not a defect.
			absent++
			continue
		}
		seen[ref.Key(m, byte(r.Num))] = true
		if got, want := lib.FieldName(m, pf.Sindex), ref.CamelCase(r.Name); got != want {
			c.Violation(nil, "message %s field %d: SDK 21.40 calls it %s (%s), the table maps it to struct field %s", r.Mesg, r.Num, r.Name, want, got)
			continue
		}
		matched++
		c.Nontrivial([]byte(fmt.Sprintf("workbook %d.%d", m, r.Num)))
	}
	// Entries the 21.40 workbook does not have: the hand-reviewed list for SDK 21.115.
	pinned := map[uint32]string{}
	for _, x := range ref.SDK21115Extra {
		pinned[ref.Key(x.Mesg, x.Num)] = x.Name
	}
	strict := fit.ProfileMajorVersion == 21 && fit.ProfileMinorVersion == 115
	newer := 0
	for _, es := range perMesg {
		for _, e := range es {
			k := ref.Key(e.Mesg, e.Num)
			if seen[k] {
				continue
			}
			newer++
			name, ok := pinned[k]
			pf := prof.Field(e.Mesg, e.Slot)
			switch {
			case !strict:
				c.Count("entries_without_independent_source_(other_sdk_version)", 1)
			case !ok:
				c.Violation(nil, "message %d field %d is in the lookup table, but neither SDK 21.40 nor the reviewed list of SDK 21.115 additions has such a field", e.Mesg, e.Num)
			case pf != nil && lib.FieldName(e.Mesg, pf.Sindex) != ref.CamelCase(name):
				c.Violation(nil, "message %d field %d: SDK 21.115 calls it %s, the table maps it to struct field %s", e.Mesg, e.Num, name, lib.FieldName(e.Mesg, pf.Sindex))
			default:
				c.Nontrivial([]byte(fmt.Sprintf("pinned %d.%d", e.Mesg, e.Num)))
				c.Count("entries_matched_against_the_reviewed_21.115_list", 1)
			}
		}
	}
	if strict {
		for _, x := range ref.SDK21115Extra {
			if prof.Known[x.Mesg] && prof.Field(x.Mesg, x.Num) == nil {
				// a field the product profile no longer selects is not a mapping error; counted only
				c.Count("reviewed_21.115_fields_absent_from_the_table", 1)
			}
		}
	}
	c.Count("workbook_rows_matched", int64(matched))
	c.Count("workbook_rows_absent_from_table", int64(absent))
	c.Count("table_entries_not_in_21.40", int64(newer))
}

// c15Dynamic decodes (and re-encodes) one stream per entry.
func c15Dynamic(c *lib.Ctx, entries []fit.VerifField) {
	prof := lib.Profile()
	for i, e := range entries {
		pf := prof.Field(e.Mesg, e.Slot)
		if pf == nil {
			continue
		}
		var hosts []byte
		for _, ft := range lib.FileTypes {
			if e.Mesg != 0 && prof.Hosted(ft.Type, e.Mesg) {
				hosts = append(hosts, ft.Type)
			}
		}
		hosted := len(hosts) > 0
		if !hosted {
			hosts = []byte{4}
		}
		if e.Mesg == 49 || e.Mesg == 162 || e.Mesg == 0 {
			hosts = []byte{4, 2}
			hosted = true
		}
		for _, ft := range hosts {
			for arch := 0; arch < 2; arch++ {
				rng := lib.NewRand("C15.dynamic", uint64(i)*64+uint64(ft)*2+uint64(arch))
				o := lib.GenOpts{FileType: ft, Records: 3, Locals: 2, OnlyField: pf, Mesgs: []uint16{e.Mesg}, BigEndian: arch * 100, FixedWidthOnly: true, HeaderSize: 14}
				g := lib.NewPlanGen(rng, o)
				plan := g.Fill()
				b := plan.Bytes()
				c.SetInflight(b)
				ex, err := lib.Expect(plan, lib.ExpectOpts{})
				if err != nil || ex.Fail {
					c.Violation(b, "harness: model failed: %v", err)
					continue
				}
				f, derr, out := lib.GuardedDecode(b)
				c.Eval()
				if out.Panicked || out.Hang {
					c.Violation(b, "decoding a stream with only message %d field %d panicked: %s\n%s", e.Mesg, e.Num, out.Panic, out.Stack)
					continue
				}
				if derr != nil {
					c.Violation(b, "decoding a stream with only message %d field %d at profile size failed: %v", e.Mesg, e.Num, derr)
					continue
				}
				got := lib.FileContent(f)
				if diffs := lib.CompareContent(ex.Content, got, lib.CompareOpts{Skip: compSkip(plan, ex)}); len(diffs) > 0 {
					c.Violation(b, "message %d field %d does not land where the table says: %s", e.Mesg, e.Num, lib.DiffsString(diffs, 3))
					continue
				}
				if hosted {
					order := binary.ByteOrder(binary.LittleEndian)
					if arch == 1 {
						order = binary.BigEndian
					}
					_, eerr, eo := lib.GuardedEncode(f, order)
					c.Eval()
					if eo.Panicked {
						c.Violation(b, "re-encoding a File with message %d field %d set panicked: %s\n%s", e.Mesg, e.Num, eo.Panic, eo.Stack)
						continue
					}
					_ = eerr // encodability of decoded values is C07's subject
				}
				c.Nontrivial([]byte(fmt.Sprintf("dynamic %d.%d ft%d arch%d", e.Mesg, e.Num, ft, arch)))
				c.Count("dynamic_streams", 1)
			}
		}
	}
}

// c15Compressed drives the one profile-driven access that does not come from a
// field definition: the value a compressed timestamp header carries is "field
// 253" of the message, whatever the message is. One stream per known message,
// host file type and definition shape: a record with a full timestamp, then the
// message under a compressed header, (a) with a zero-field definition, (b) with
// every non-253 field of the message defined at profile size and left invalid.
// Compared with the reference model: only the struct field that the table gives
// for field 253 (if any) may differ from the constructor's value.
func c15Compressed(c *lib.Ctx) {
	prof := lib.Profile()
	for _, m := range lib.KnownMesgs() {
		if m == 0 {
			continue
		}
		var hosts []byte
		for _, ft := range lib.FileTypes {
			if prof.Hosted(ft.Type, m) {
				hosts = append(hosts, ft.Type)
			}
		}
		hosted := len(hosts) > 0
		if !hosted {
			hosts = []byte{4}
		}
		for _, ft := range hosts {
			for shape := 0; shape < 2; shape++ {
				rng := lib.NewRand("C15.compressed", uint64(m)*512+uint64(ft)*2+uint64(shape))
				g := lib.NewPlanGen(rng, lib.GenOpts{FileType: ft, HeaderSize: 14, Mesgs: []uint16{m}})
				plan := g.P
				arch := byte(shape)
				ts := uint64(0x30000000 + rng.Intn(1<<24))
				tsb := make([]byte, 4)
				ref.Put(tsb, ts, 4, arch)
				// a message every file type accepts as carrier of the reference: the
				// message itself if it has field 253, else an unknown message number
				// cannot set it, so use record/monitoring-like carrier 20 (ignored by
				// containers that do not host it, the reference is set all the same)
				plan.Records = append(plan.Records,
					ref.Record{IsDef: true, Local: 5, Arch: arch, Global: 20, Fields: []ref.FieldDef{{Num: 253, Size: 4, Base: 0x86}}},
					ref.Record{Local: 5, Data: [][]byte{tsb}})
				def := ref.Record{IsDef: true, Local: byte(rng.Intn(4)), Arch: arch, Global: m}
				var data [][]byte
				if shape == 1 {
					for _, pf := range prof.ByMesg[m] {
						if pf.Num == 253 {
							continue
						}
						bt, _ := ref.BaseByIndex(pf.Base)
						sz := bt.Size
						fd := ref.FieldDef{Num: pf.Num, Size: byte(sz), Base: bt.Code}
						def.Fields = append(def.Fields, fd)
						inv := make([]byte, sz)
						ref.Put(inv, bt.Invalid, sz, arch)
						data = append(data, inv)
					}
				}
				off := byte(rng.Intn(32))
				plan.Records = append(plan.Records, def, ref.Record{Local: def.Local, Compressed: true, TimeOffset: off, Data: data})
				// round 13: the same definition once more under a normal header (and, in every
				// other stream, from a second slot defined alike): this message carries no time,
				// so every field - 253 included - must hold what the constructor gives, whatever
				// the record before it received from its header
				plan.Records = append(plan.Records, ref.Record{Local: def.Local, Data: data})
				if (int(m)+int(ft))%2 == 0 {
					def2 := def
					def2.Local = 8 + byte(rng.Intn(4))
					plan.Records = append(plan.Records, def2, ref.Record{Local: def2.Local, Data: data},
						ref.Record{Local: def.Local, Compressed: true, TimeOffset: off, Data: data}, ref.Record{Local: def2.Local, Data: data})
				}
				b := plan.Bytes()
				c.SetInflight(b)
				ex, err := lib.Expect(plan, lib.ExpectOpts{})
				if err != nil || ex.Fail {
					c.Violation(b, "harness: model failed on compressed probe of message %d: %v", m, err)
					continue
				}
				f, derr, out := lib.GuardedDecode(b)
				c.Eval()
				if out.Panicked || out.Hang {
					c.Violation(b, "decoding message %d under a compressed timestamp header panicked: %s\n%s", m, out.Panic, out.Stack)
					continue
				}
				if derr != nil {
					c.Violation(b, "decoding message %d under a compressed timestamp header failed: %v", m, derr)
					continue
				}
				if diffs := lib.CompareContent(ex.Content, lib.FileContent(f), lib.CompareOpts{Skip: compSkip(plan, ex)}); len(diffs) > 0 {
					c.Violation(b, "message %d under a compressed timestamp header: the carried time does not land in the struct field the table gives for field 253 (and only there): %s", m, lib.DiffsString(diffs, 3))
					continue
				}
				c.Nontrivial([]byte(fmt.Sprintf("compressed %d ft%d shape%d", m, ft, shape)))
				c.Count("compressed_header_streams", 1)
				if prof.Field(m, 253) == nil {
					c.Count("compressed_header_streams_message_without_253", 1)
				}
			}
		}
	}
}

// c15OtherBaseTypes: "no profile-driven reflection access in decoder or encoder can fail for any
// (message, field) pair" also when the definition on the wire declares another base type than
// the profile: for every entry, every one of the 17 base types, at the declared type's element
// size, the entry's profile size and a multiple: the definition is either rejected with an
// error or the record decodes (and, when hosted, re-encodes) without a panic.
func c15OtherBaseTypes(c *lib.Ctx, entries []fit.VerifField) {
	prof := lib.Profile()
	probeNo := 0
	for _, e := range entries {
		pf := prof.Field(e.Mesg, e.Slot)
		if pf == nil || e.Mesg == 0 {
			continue
		}
		ft := byte(4)
		for _, t := range lib.FileTypes {
			if prof.Hosted(t.Type, e.Mesg) {
				ft = t.Type
				break
			}
		}
		pbt := ref.BaseTypes[pf.Base]
		// every other value of the base type byte (type numbers 17-31, reserved bits 5 and 6, the
		// endian flag on one-byte types or missing on wide ones ...): a definition that uses it
		// is refused or decoded, and the records that follow never make a reflection access fail
		defined := map[byte]bool{}
		for _, bt := range ref.BaseTypes {
			defined[bt.Code] = true
		}
		for raw := 0; raw < 256; raw++ {
			if defined[byte(raw)] {
				continue
			}
			sz := pbt.Size
			if pf.Array || pbt.Code == 0x07 {
				sz = pbt.Size * 2
			}
			arch := byte(raw>>3) & 1
			plan := &ref.Plan{HeaderSize: 14, Proto: 0x20, ProfVer: 2115}
			plan.Records = append(plan.Records,
				ref.Record{IsDef: true, Local: 0, Arch: arch, Global: 0, Fields: []ref.FieldDef{{Num: 0, Size: 1, Base: 0}}},
				ref.Record{Local: 0, Data: [][]byte{{ft}}},
				ref.Record{IsDef: true, Local: 1, Arch: arch, Global: e.Mesg, Fields: []ref.FieldDef{{Num: e.Num, Size: byte(sz), Base: byte(raw)}}})
			for _, fill := range []byte{0x41, 0x01} {
				d := make([]byte, sz)
				for i := range d {
					d[i] = fill
				}
				plan.Records = append(plan.Records, ref.Record{Local: 1, Data: [][]byte{d}})
			}
			b := plan.Bytes()
			c.SetInflight(b)
			f, derr, out := lib.GuardedDecode(b)
			c.Eval()
			if out.Panicked || out.Hang {
				c.Violation(b, "message %d field %d defined with base type byte %#02x (not a defined base type), size %d: Decode panicked: %s\n%s", e.Mesg, e.Num, raw, sz, out.Panic, out.Stack)
				return
			}
			if derr == nil && f != nil {
				if _, _, eo := lib.GuardedEncode(f, archOrder(int(arch))); eo.Panicked {
					c.Violation(b, "message %d field %d defined with base type byte %#02x: re-encoding the decoded File panicked: %s", e.Mesg, e.Num, raw, eo.Panic)
					return
				}
				c.Count("undefined_base_type_bytes_accepted", 1)
			} else {
				c.Count("undefined_base_type_bytes_rejected", 1)
			}
		}
		for _, bt := range ref.BaseTypes {
			sizes := map[int]bool{bt.Size: true, pbt.Size * int(pf.Length): true, bt.Size * 3: true}
			for sz := range sizes {
				if sz <= 0 || sz > 255 {
					continue
				}
				for archpv := byte(0); archpv < 4; archpv++ {
					// both byte orders, and a header profile version at / above the library's own
					arch := archpv & 1
					plan := &ref.Plan{HeaderSize: 14, Proto: 0x10, ProfVer: []uint16{2115, 21158}[archpv>>1]}
					// the file says who wrote it: manufacturer and product rotate through the
					// probes (all manufacturer numbers 0..511 and 65535 come by many times): what
					// the decoder accepts must not depend on the vendor
					probeNo++
					manu := uint16(probeNo % 513)
					if manu == 512 {
						manu = 0xFFFF
					}
					prod := uint16(probeNo / 513 * 37)
					if d := c04Dict(); probeNo%3 == 0 && len(d) > 0 {
						// every third probe: a (manufacturer, product) pair from the integer values
						// found in the library's own sources
						manu, prod = d[probeNo/3%len(d)], d[probeNo/3/len(d)%len(d)]
					}
					mb, pb2 := make([]byte, 2), make([]byte, 2)
					ref.Put(mb, uint64(manu), 2, arch)
					ref.Put(pb2, uint64(prod), 2, arch)
					plan.Records = append(plan.Records,
						ref.Record{IsDef: true, Local: 0, Arch: arch, Global: 0, Fields: []ref.FieldDef{{Num: 0, Size: 1, Base: 0}, {Num: 1, Size: 2, Base: 0x84}, {Num: 2, Size: 2, Base: 0x84}}},
						ref.Record{Local: 0, Data: [][]byte{{ft}, mb, pb2}},
						ref.Record{IsDef: true, Local: 1, Arch: arch, Global: e.Mesg, Fields: []ref.FieldDef{{Num: e.Num, Size: byte(sz), Base: bt.Code}}})
					for _, fill := range []byte{0x41, 0xFF, 0x00} {
						d := make([]byte, sz)
						for i := range d {
							d[i] = fill
						}
						plan.Records = append(plan.Records, ref.Record{Local: 1, Data: [][]byte{d}})
					}
					b := plan.Bytes()
					c.SetInflight(b)
					f, derr, out := lib.GuardedDecode(b)
					c.Eval()
					if out.Panicked || out.Hang {
						c.Violation(b, "message %d field %d defined with base type %s, size %d, arch %d: Decode panicked: %s\n%s", e.Mesg, e.Num, bt.Name, sz, arch, out.Panic, out.Stack)
						return
					}
					// the same with a logger and the unknown-item options: what guards the reflection
					// accesses must not depend on them
					_, derr2, out2 := lib.GuardedDecode(b, optionList(7, &countingLogger{}, uint64(sz)+uint64(bt.Code))...)
					c.Eval()
					if out2.Panicked || out2.Hang {
						c.Violation(b, "message %d field %d defined with base type %s, size %d, arch %d: Decode with a logger and the unknown-item options panicked: %s\n%s", e.Mesg, e.Num, bt.Name, sz, arch, out2.Panic, out2.Stack)
						return
					}
					if (derr == nil) != (derr2 == nil) {
						c.Violation(b, "message %d field %d defined with base type %s, size %d: accepted without options (%v) but not with them (%v), or the reverse", e.Mesg, e.Num, bt.Name, sz, derr, derr2)
						return
					}
					// the same once more with look-alikes first: messages the profile does not know
					// (this message number plus 256, plus 512, with the high byte 0xFF) define a field
					// with the very same number, size and base type earlier in the file. What was
					// accepted for them says nothing about this message.
					if archpv == 0 || archpv == 3 {
						plan2 := &ref.Plan{HeaderSize: plan.HeaderSize, Proto: plan.Proto, ProfVer: plan.ProfVer}
						plan2.Records = append(plan2.Records, plan.Records[:2]...)
						for li, alias := range []uint16{e.Mesg + 256, e.Mesg + 512, 0xFF00 | e.Mesg&0xFF} {
							if !prof.Known[alias] {
								plan2.Records = append(plan2.Records,
									ref.Record{IsDef: true, Local: byte(2 + li), Arch: arch, Global: alias, Fields: []ref.FieldDef{{Num: e.Num, Size: byte(sz), Base: bt.Code}}},
									ref.Record{Local: byte(2 + li), Data: [][]byte{make([]byte, sz)}})
							}
						}
						plan2.Records = append(plan2.Records, plan.Records[2:]...)
						b3 := plan2.Bytes()
						c.SetInflight(b3)
						_, derr3, out3 := lib.GuardedDecode(b3)
						c.Eval()
						if out3.Panicked || out3.Hang {
							c.Violation(b3, "message %d field %d defined with base type %s, size %d after look-alike definitions of unknown messages: Decode panicked: %s\n%s", e.Mesg, e.Num, bt.Name, sz, out3.Panic, out3.Stack)
							return
						}
						if (derr == nil) != (derr3 == nil) {
							c.Violation(b3, "message %d field %d defined with base type %s, size %d: %v on its own, but %v after unknown messages defined a field with the same number, size and type", e.Mesg, e.Num, bt.Name, sz, derr, derr3)
							return
						}
					}
					// the same entry once more as a repeat: the definition lists the field number twice,
					// first as the profile has it, then with the probed size and base type (writers that
					// build definitions from a list of sensors do that). Each entry of a definition is
					// an entry of its own; no reflection access may fail for the second one either.
					if archpv == 1 || archpv == 2 {
						conf := ref.FieldDef{Num: e.Num, Size: byte(pbt.Size), Base: pbt.Code}
						if pf.Array || pbt.Code == 0x07 {
							conf.Size = byte(pbt.Size * minInt(int(pf.Length), 3))
							if conf.Size == 0 {
								conf.Size = byte(pbt.Size)
							}
						}
						plan4 := &ref.Plan{HeaderSize: plan.HeaderSize, Proto: plan.Proto, ProfVer: plan.ProfVer}
						plan4.Records = append(plan4.Records, plan.Records[:2]...)
						plan4.Records = append(plan4.Records, ref.Record{IsDef: true, Local: 1, Arch: arch, Global: e.Mesg, Fields: []ref.FieldDef{conf, {Num: e.Num, Size: byte(sz), Base: bt.Code}}})
						for _, fill := range []byte{0x41, 0xFF, 0x00} {
							d0, d1 := make([]byte, conf.Size), make([]byte, sz)
							for i := range d0 {
								d0[i] = 0x01
							}
							for i := range d1 {
								d1[i] = fill
							}
							plan4.Records = append(plan4.Records, ref.Record{Local: 1, Data: [][]byte{d0, d1}})
						}
						b4 := plan4.Bytes()
						c.SetInflight(b4)
						f4, derr4, out4 := lib.GuardedDecode(b4)
						c.Eval()
						if out4.Panicked || out4.Hang {
							c.Violation(b4, "message %d field %d listed twice in one definition, the second time with base type %s, size %d: Decode panicked: %s\n%s", e.Mesg, e.Num, bt.Name, sz, out4.Panic, out4.Stack)
							return
						}
						c.Count("definitions_repeating_a_field_number", 1)
						if derr4 == nil && f4 != nil {
							_, _, eo := lib.GuardedEncode(f4, archOrder(int(arch)))
							c.Eval()
							if eo.Panicked {
								c.Violation(b4, "message %d field %d listed twice in one definition (second: base type %s, size %d): re-encoding the decoded File panicked: %s", e.Mesg, e.Num, bt.Name, sz, eo.Panic)
								return
							}
						}
					}
					if derr != nil {
						c.Count("other_base_type_definitions_rejected", 1)
						continue
					}
					c.Count("other_base_type_definitions_accepted", 1)
					for a := 0; a < 2; a++ {
						_, _, eo := lib.GuardedEncode(f, archOrder(a))
						c.Eval()
						if eo.Panicked {
							c.Violation(b, "message %d field %d defined with base type %s, size %d: re-encoding the decoded File panicked: %s", e.Mesg, e.Num, bt.Name, sz, eo.Panic)
							return
						}
					}
				}
			}
		}
	}
}
