package checks

import (
	"fmt"
	"math"
	"sort"
	"strconv"
	"strings"
	"sync"
	"time"

	"github.com/tormoder/fit"

	"verifharness/lib"
	"verifharness/ref"
)

func init() { registrars = append(registrars, registerC17) }

// c17Kept: a printed form held across later String() calls, with a private copy of its bytes.
type c17Kept struct {
	s, copy string
	of      int32
}

var c17Held [2]c17Kept

func registerC17() {
	lib.Register(&lib.Check{
		ID:    "C17",
		Level: "exploration",
		Rule: "all 2^32 semicircle values for Latitude and Longitude (constructors, Invalid, Semicircles, Degrees, NewXDegrees round trip) and all 2^32 second counts " +
			"(decode/encode bijection, UTC, whole seconds, monotone, IsBaseTime - also false for instants a fraction of a second beside the epoch and whole 2^32 s periods away from it), in 4096 chunks of 2^20 values; the printed form is checked on a stride of 4099 plus all " +
			"boundary values in the quick tier and on every value in the thorough tier; family spread: 128 of the chunks once more, also in a binary built with GOARCH=386 (32-bit int); family decoded: coordinates that come out of Decode (record.position_lat / position_long written as sint32 in both byte orders: all boundary values and a stride over the range, 4000 per case) obey the same rules and equal what the constructor gives for the same semicircles; family concurrent-print: 8 goroutines print and parse 40000 coordinates each at the same time; plus the same rules (coordinates on a stride of 4099 and the boundary values, times on a stride of 8209) in a program built for GOOS=js GOARCH=wasm and run by node when the host has one - a platform that converts out-of-range floats and shifts differently from amd64 and 386; every value is a distinct case, non-trivial because each exercises the oracle",
		Assume: []string{
			"'outside +-90 degrees' is read as the library's documented semicircle range [-2^30, 2^30-1]; +2^30 (exactly +90) is invalid in the code and in its own test table",
			"the time conversion pair is reached through the verif hook (VerifDecodeDateTime / VerifEncodeTime)",
		},
		MinNontrivial: 1 << 32,
		Families: []lib.Family{
			{Name: "coords", N: func(string) uint64 { return 4096 }, Run: c17Coords},
			{Name: "time", N: func(string) uint64 { return 4096 }, Run: c17Time},
			{Name: "spread", N: func(string) uint64 { return 128 }, Run: func(c *lib.Ctx, idx uint64) { c17Coords(c, idx*32+7); c17Time(c, idx*32+19) }},
			{Name: "concurrent-print", N: func(t string) uint64 { return tierN(t, 32, 512) }, Run: c17ConcurrentPrint},
			{Name: "decoded", N: func(t string) uint64 { return tierN(t, 64, 2048) }, Run: c17Decoded},
		},
		Families386: []string{"spread", "concurrent-print"}, // 128 chunks of 2^20 values spread over the range, again in a GOARCH=386 binary
		Exhaustive:  func(string) bool { return true },
		Main:        c14Wasm, // cmd/c17wasm, built by ./run for C17: the same rules on a stride, in a js/wasm build run by node
		Finish: func(c *lib.Ctx, cov map[string]interface{}) {
			cov["printed_form_exhaustive"] = c.Tier == "thorough"
		},
	})
}

const semiToDeg = 180.0 / 2147483648.0

// c17Decoded: the coordinate rules hold for values however they were made - here by the decoder.
func c17Decoded(c *lib.Ctx, idx uint64) {
	rng := lib.NewRand("C17.decoded", idx)
	arch := byte(idx % 2)
	var vals []int32
	for b := range coordBoundaries {
		vals = append(vals, b)
	}
	sort.Slice(vals, func(i, j int) bool { return vals[i] < vals[j] })
	for len(vals) < 4000 {
		vals = append(vals, int32(rng.U64()))
	}
	plan := &ref.Plan{HeaderSize: 14, Proto: 0x20, ProfVer: 2115}
	plan.Records = append(plan.Records,
		ref.Record{IsDef: true, Local: 0, Arch: arch, Global: 0, Fields: []ref.FieldDef{{Num: 0, Size: 1, Base: 0}}},
		ref.Record{Local: 0, Data: [][]byte{{4}}},
		ref.Record{IsDef: true, Local: 1, Arch: arch, Global: 20, Fields: []ref.FieldDef{{Num: 0, Size: 4, Base: 0x85}, {Num: 1, Size: 4, Base: 0x85}}})
	for i, v := range vals {
		la, lo := make([]byte, 4), make([]byte, 4)
		ref.Put(la, uint64(uint32(v)), 4, arch)
		ref.Put(lo, uint64(uint32(vals[len(vals)-1-i])), 4, arch)
		plan.Records = append(plan.Records, ref.Record{Local: 1, Data: [][]byte{la, lo}})
	}
	b := plan.Bytes()
	c.SetInflight(b[:256])
	f, derr, out := lib.GuardedDecode(b)
	c.EvalN(int64(2 * len(vals)))
	if out.Panicked || derr != nil {
		c.Violation(b[:256], "Decode of %d records with coordinates failed: %v %s", len(vals), derr, out.Panic)
		return
	}
	act, err := f.Activity()
	if err != nil || len(act.Records) != len(vals) {
		c.Violation(b[:256], "decoded %d records, want %d (%v)", len(act.Records), len(vals), err)
		return
	}
	nv := 0
	for i, r := range act.Records {
		sla, slo := vals[i], vals[len(vals)-1-i]
		if want := fit.NewLatitude(sla); r.PositionLat != want || r.PositionLat.Invalid() != (sla == math.MaxInt32 || sla < -(1<<30) || sla > (1<<30)-1) {
			nv++
			if nv <= 3 {
				c.Violation(b[:256], "position_lat written as %d semicircles decodes to %d (invalid=%v, %q); NewLatitude gives %d (invalid=%v)", sla, r.PositionLat.Semicircles(), r.PositionLat.Invalid(), r.PositionLat.String(), want.Semicircles(), want.Invalid())
			}
		}
		if want := fit.NewLongitude(slo); r.PositionLong != want || r.PositionLong.Semicircles() != slo || r.PositionLong.Invalid() != (slo == math.MaxInt32) {
			nv++
			if nv <= 3 {
				c.Violation(b[:256], "position_long written as %d semicircles decodes to %d (invalid=%v, %q)", slo, r.PositionLong.Semicircles(), r.PositionLong.Invalid(), r.PositionLong.String())
			}
		}
		if !r.PositionLat.Invalid() {
			if d := r.PositionLat.Degrees(); d != float64(sla)*semiToDeg {
				nv++
				if nv <= 3 {
					c.Violation(b[:256], "decoded position_lat %d: Degrees() = %v", sla, d)
				}
			}
		}
	}
	if nv == 0 {
		c.Count("coordinates_checked_after_decoding", int64(2*len(vals)))
		c.NontrivialN(int64(2 * len(vals)))
	}
}

// c17Formats: verbs under which fmt prints a Stringer as text, with field widths below, at and
// above the length of a printed coordinate.
var c17Formats = []string{"%v", "%s", "%+v", "%8v", "%4v", "%-9s", "%12s", "%3s", "%-20v", "%1v", "%10v", "%-6v", "%9s", "%11v", "% v", "%2s"}

var coordBoundaries = map[int32]bool{}

func init() {
	for _, b := range []int64{math.MinInt32, -(1 << 30), 0, 1 << 30, math.MaxInt32} {
		for d := int64(-3); d <= 3; d++ {
			v := b + d
			if v >= math.MinInt32 && v <= math.MaxInt32 {
				coordBoundaries[int32(v)] = true
			}
		}
	}
}

func c17Coords(c *lib.Ctx, idx uint64) {
	base := uint32(idx) << 20
	thorough := c.Tier == "thorough"
	nv := 0
	report := func(format string, args ...interface{}) {
		nv++
		if nv <= 3 {
			c.Violation(nil, format, args...)
		}
	}
	printed := int64(0)
	fmtPrinted := int64(0)
	defer func() { c.Count("values_printed_through_fmt_verbs", fmtPrinted) }()
	for i := uint32(0); i < 1<<20; i++ {
		s := int32(base + i)
		// Latitude.
		latInv := s == math.MaxInt32 || s < -(1<<30) || s > (1<<30)-1
		la := fit.NewLatitude(s)
		if la.Invalid() != latInv {
			report("NewLatitude(%d).Invalid() = %v, want %v", s, la.Invalid(), latInv)
		}
		wantS := s
		if latInv {
			wantS = math.MaxInt32
		}
		if la.Semicircles() != wantS {
			report("NewLatitude(%d).Semicircles() = %d, want %d", s, la.Semicircles(), wantS)
		}
		deg := la.Degrees()
		if latInv {
			if !math.IsNaN(deg) {
				report("invalid latitude %d: Degrees() = %v, want NaN", s, deg)
			}
		} else {
			if want := float64(s) * semiToDeg; deg != want {
				report("NewLatitude(%d).Degrees() = %v, want %v", s, deg, want)
			}
			if deg > -90 && deg < 90 {
				b := fit.NewLatitudeDegrees(deg)
				d := int64(b.Semicircles()) - int64(s)
				if b.Invalid() || d < -1 || d > 1 {
					report("NewLatitudeDegrees(%v) (from %d semicircles) = %d semicircles, invalid=%v", deg, s, b.Semicircles(), b.Invalid())
				}
			}
		}
		// Longitude.
		lngInv := s == math.MaxInt32
		lo := fit.NewLongitude(s)
		if lo.Invalid() != lngInv {
			report("NewLongitude(%d).Invalid() = %v, want %v", s, lo.Invalid(), lngInv)
		}
		if lo.Semicircles() != s {
			report("NewLongitude(%d).Semicircles() = %d", s, lo.Semicircles())
		}
		ldeg := lo.Degrees()
		if lngInv {
			if !math.IsNaN(ldeg) {
				report("invalid longitude: Degrees() = %v, want NaN", ldeg)
			}
		} else {
			if want := float64(s) * semiToDeg; ldeg != want {
				report("NewLongitude(%d).Degrees() = %v, want %v", s, ldeg, want)
			}
			if ldeg > -180 && ldeg < 180 {
				b := fit.NewLongitudeDegrees(ldeg)
				d := int64(b.Semicircles()) - int64(s)
				if b.Invalid() || d < -1 || d > 1 {
					report("NewLongitudeDegrees(%v) (from %d semicircles) = %d semicircles, invalid=%v", ldeg, s, b.Semicircles(), b.Invalid())
				}
			}
		}
		if thorough || (base+i)%4099 == 0 || coordBoundaries[s] {
			printed++
			checkPrinted := func(kind string, str string, inv bool, d float64) {
				if inv {
					if str != "Invalid" {
						report("%s %d: String() = %q, want \"Invalid\"", kind, s, str)
					}
					return
				}
				v, err := strconv.ParseFloat(str, 64)
				if err != nil || math.Abs(v-d) > 2e-5 {
					report("%s %d: String() = %q, Degrees() = %v: not within 2e-5", kind, s, str, d)
				}
			}
			// the strings are kept until the next pair has been printed and then read again: a
			// printed form must not change after it was returned
			laStr := la.String()
			loStr := lo.String()
			checkPrinted("latitude", laStr, latInv, deg)
			checkPrinted("longitude", loStr, lngInv, ldeg)
			// the other ways a value gets printed: through the fmt verbs that print a Stringer as
			// text (%v %s %+v, with and without a field width, left- or right-aligned, as a value, a
			// pointer, inside a struct and a slice) and fmt.Sprint / Sprintln. A width pads, it
			// never cuts; what is printed must still be within 2e-5 degrees.
			if printed%7 == 0 || coordBoundaries[s] {
				k := int(printed/7) % len(c17Formats)
				fm := c17Formats[k]
				checkPrinted("latitude printed with "+fm, strings.TrimSpace(fmt.Sprintf(fm, la)), latInv, deg)
				checkPrinted("longitude printed with "+fm, strings.TrimSpace(fmt.Sprintf(fm, lo)), lngInv, ldeg)
				switch k % 4 {
				case 0:
					checkPrinted("latitude printed by Sprint", fmt.Sprint(la), latInv, deg)
					checkPrinted("longitude printed by Sprintln", strings.TrimSpace(fmt.Sprintln(lo)), lngInv, ldeg)
				case 1:
					checkPrinted("*latitude printed with "+fm, strings.TrimSpace(fmt.Sprintf(fm, &la)), latInv, deg)
					checkPrinted("*longitude printed with "+fm, strings.TrimSpace(fmt.Sprintf(fm, &lo)), lngInv, ldeg)
				case 2:
					in := strings.Trim(strings.TrimSpace(fmt.Sprintf(fm, []fit.Longitude{lo})), "[] ")
					checkPrinted("[]longitude printed with "+fm, in, lngInv, ldeg)
				case 3:
					in := strings.Trim(strings.TrimSpace(fmt.Sprintf(fm, struct{ A fit.Latitude }{la})), "{}A: ")
					checkPrinted("struct{latitude} printed with "+fm, in, latInv, deg)
				}
				fmtPrinted++
			}
			if c17Held[0].s != c17Held[0].copy || c17Held[1].s != c17Held[1].copy {
				report("the printed form of semicircles %d changed after later String() calls: now %q / %q, was %q / %q", c17Held[0].of, c17Held[0].s, c17Held[1].s, c17Held[0].copy, c17Held[1].copy)
			}
			c17Held[0] = c17Kept{laStr, strings.Clone(laStr), s}
			c17Held[1] = c17Kept{loStr, strings.Clone(loStr), s}
		}
	}
	// Out-of-range degrees are rejected by the degree constructors.
	if idx == 0 {
		for _, d := range []float64{90, -90, 90.00001, -1e9, math.Inf(1)} {
			if !fit.NewLatitudeDegrees(d).Invalid() {
				report("NewLatitudeDegrees(%v) is valid", d)
			}
		}
		for _, d := range []float64{180, -180, 180.00001, 1e9, math.Inf(-1)} {
			if !fit.NewLongitudeDegrees(d).Invalid() {
				report("NewLongitudeDegrees(%v) is valid", d)
			}
		}
		// ... on both sides, densely up to 2.5 turns past the range ends and at the nearest floats.
		probes := 0
		for _, sign := range []float64{1, -1} {
			for i := 0; i <= 250000; i++ {
				dl := sign * (90 + float64(i)*0.0036)
				if !fit.NewLatitudeDegrees(dl).Invalid() {
					report("NewLatitudeDegrees(%v) is valid", dl)
					break
				}
				dg := sign * (180 + float64(i)*0.0036)
				if !fit.NewLongitudeDegrees(dg).Invalid() {
					report("NewLongitudeDegrees(%v) is valid", dg)
					break
				}
				probes += 2
			}
			for _, e := range []float64{1e-12, 1e-9, 1e-6, 1, 1e3, 1e6, 1e12, 1e300} {
				if !fit.NewLatitudeDegrees(sign*(90+e)).Invalid() || !fit.NewLatitudeDegrees(math.Nextafter(sign*90, sign*100)).Invalid() {
					report("NewLatitudeDegrees just past %v is valid", sign*90)
				}
				if !fit.NewLongitudeDegrees(sign*(180+e)).Invalid() || !fit.NewLongitudeDegrees(math.Nextafter(sign*180, sign*200)).Invalid() {
					report("NewLongitudeDegrees just past %v is valid", sign*180)
				}
				probes += 4
			}
		}
		c.Count("out_of_range_degree_probes", int64(probes))
		if !fit.NewLatitudeInvalid().Invalid() || !fit.NewLongitudeInvalid().Invalid() {
			report("NewXInvalid() is not invalid")
		}
		c.Sample("coordinate", 1, map[string]interface{}{"semicircles": 495280430, "lat_degrees": fit.NewLatitude(495280430).Degrees(), "lat_string": fit.NewLatitude(495280430).String()})
	}
	c.EvalN(2 << 20)
	c.Count("printed_forms_checked", 2*printed)
	if nv == 0 {
		c.NontrivialN(2 << 20)
	} else {
		c.Count("violating_values", int64(nv))
	}
}

var fitEpoch = time.Date(1989, time.December, 31, 0, 0, 0, 0, time.UTC)

// c17ConcurrentPrint: the printed form must be within 2e-5 degrees whoever else is printing at
// the same time: 8 goroutines print and parse 40 000 coordinates each (values and methods are
// value types: nothing is shared by the callers).
func c17ConcurrentPrint(c *lib.Ctx, idx uint64) {
	const G, per = 8, 40000
	var wg sync.WaitGroup
	bad := make([]string, G)
	for g := 0; g < G; g++ {
		wg.Add(1)
		go func(g int) {
			defer wg.Done()
			rng := lib.NewRand("C17.concurrent-print", idx*64+uint64(g))
			for i := 0; i < per && bad[g] == ""; i++ {
				s := int32(rng.U64())
				la, lo := fit.NewLatitude(s), fit.NewLongitude(s)
				for k, str := range []string{la.String(), lo.String()} {
					inv, deg := la.Invalid(), la.Degrees()
					if k == 1 {
						inv, deg = lo.Invalid(), lo.Degrees()
					}
					if inv {
						if str != "Invalid" {
							bad[g] = fmt.Sprintf("semicircles %d: String() = %q, want \"Invalid\"", s, str)
						}
						continue
					}
					v, err := strconv.ParseFloat(str, 64)
					if err != nil || math.Abs(v-deg) > 2e-5 {
						bad[g] = fmt.Sprintf("semicircles %d: String() = %q while %d goroutines print coordinates, Degrees() = %v: not within 2e-5", s, str, G, deg)
					}
				}
			}
		}(g)
	}
	wg.Wait()
	c.EvalN(2 * G * per)
	for _, b := range bad {
		if b != "" {
			c.Violation([]byte(b), "%s", b)
			return
		}
	}
	c.NontrivialN(2 * G * per)
	c.Count("coordinates_printed_concurrently", 2*G*per)
}

func c17Time(c *lib.Ctx, idx uint64) {
	base := uint32(idx) << 20
	nv := 0
	report := func(format string, args ...interface{}) {
		nv++
		if nv <= 3 {
			c.Violation(nil, format, args...)
		}
	}
	var prev time.Time
	havePrev := false
	if base > 0 {
		prev = fit.VerifDecodeDateTime(base - 1)
		havePrev = true
	}
	epochUnix := fitEpoch.Unix()
	for i := uint32(0); i < 1<<20; i++ {
		x := base + i
		t := fit.VerifDecodeDateTime(x)
		if t.Unix() != epochUnix+int64(x) || t.Nanosecond() != 0 {
			report("decode(%d) = %v, want FIT epoch + %d s exactly", x, t, x)
		}
		if t.Location() != time.UTC {
			report("decode(%d) is not in UTC: %v", x, t.Location())
		}
		if y := fit.VerifEncodeTime(t); y != x {
			report("encode(decode(%d)) = %d", x, y)
		}
		if havePrev && !t.After(prev) {
			report("decode not strictly increasing at %d", x)
		}
		if fit.IsBaseTime(t) != (x == 0) {
			report("IsBaseTime(decode(%d)) = %v", x, fit.IsBaseTime(t))
		}
		prev, havePrev = t, true
	}
	if idx == 0 {
		// Encoding is invariant under the zone a time is expressed in.
		t := fit.VerifDecodeDateTime(1000000000).In(time.FixedZone("X", 3600))
		if fit.VerifEncodeTime(t) != 1000000000 {
			report("encode depends on the location of the time value")
		}
		// ... also in zones of the zone database, second by second around every daylight-saving
		// transition between 1990 and 2100 (the hour that happens twice, the hour that is
		// skipped), and once an hour in between: the count is a property of the instant.
		probes := 0
		for _, z := range lib.TZZones() {
			for _, tr := range lib.TZTransitions(z) {
				for d := int64(-7300); d <= 7300; d += 7 {
					u := tr + d
					x := u - epochUnix
					if x <= 0 || x >= 1<<32-1 {
						continue
					}
					probes++
					if y := fit.VerifEncodeTime(time.Unix(u, 0).In(z)); int64(y) != x {
						report("encode of instant %d s after the epoch expressed in %v (%v) = %d", x, z, time.Unix(u, 0).In(z), y)
					}
				}
			}
			for x := int64(3601); x < 1<<32-1; x += 3600*37 + 11 {
				probes++
				if y := fit.VerifEncodeTime(time.Unix(epochUnix+x, 0).In(z)); int64(y) != x {
					report("encode of instant %d s after the epoch expressed in %v = %d", x, z, y)
				}
			}
		}
		c.Count("instants_encoded_in_zone_database_locations", int64(probes))
		// IsBaseTime is a property of the instant as well: true only at second count zero,
		// whatever location (name, offset) the time value is expressed in.
		ib := 0
		for _, x := range []uint32{0, 1, 59, 3600, 7200, 19800, 43200, 86399, 86400, 1000000000, 0x7FFFFFFF, 0x80000000, 0xFFFFFFFE} {
			t := fit.VerifDecodeDateTime(x)
			offs := []int{0, 1, -1, 3600, -3600, 7200, 19800, -19800, 43200, -43200, 50400, -50400}
			if x < 1<<30 {
				offs = append(offs, int(x), -int(x))
			}
			for _, off := range offs {
				for _, name := range []string{"FITLOCAL", "UTC", "", "GMT", "Local", "X"} {
					ib++
					if got := fit.IsBaseTime(t.In(time.FixedZone(name, off))); got != (x == 0) {
						report("IsBaseTime(second count %d expressed in zone %q, offset %d s) = %v", x, name, off, got)
					}
				}
			}
			for _, z := range lib.TZZones() {
				ib++
				if got := fit.IsBaseTime(t.In(z)); got != (x == 0) {
					report("IsBaseTime(second count %d expressed in %v) = %v", x, z, got)
				}
			}
		}
		c.Count("is_base_time_probes_in_other_locations", int64(ib))
		// round 13: "true only at zero" from the side of the time values an application holds:
		// an instant that is not the FIT epoch - a fraction of a second beside it, or a whole
		// number of 2^32-second periods away from it (where a 32-bit second count would read
		// zero again) - is not the base time, in whatever location it is expressed.
		off0 := 0
		for _, d := range []time.Duration{time.Nanosecond, time.Microsecond, time.Millisecond, 250 * time.Millisecond, 500 * time.Millisecond, 999999999 * time.Nanosecond, time.Second, -time.Second} {
			for _, sign := range []time.Duration{1, -1} {
				for _, z := range []*time.Location{time.UTC, time.Local, time.FixedZone("FITLOCAL", 7200), time.FixedZone("", -19800)} {
					off0++
					if t := fitEpoch.Add(sign * d).In(z); fit.IsBaseTime(t) {
						report("IsBaseTime(%v) = true: the instant lies %v from the FIT epoch", t.Format(time.RFC3339Nano), sign*d)
					}
				}
			}
		}
		for _, k := range []int64{1, 2, 3, -1, -2} {
			for _, z := range []*time.Location{time.UTC, time.Local, time.FixedZone("FITLOCAL", -3600)} {
				off0++
				if t := time.Unix(epochUnix+k<<32, 0).In(z); fit.IsBaseTime(t) {
					report("IsBaseTime(%v) = true: the instant lies %d x 2^32 s from the FIT epoch", t.Format(time.RFC3339), k)
				}
			}
		}
		for _, z := range []*time.Location{time.Local, time.FixedZone("FITLOCAL", 7200), time.FixedZone("x", -43200)} {
			off0++
			if !fit.IsBaseTime(fitEpoch.In(z)) {
				report("IsBaseTime(the FIT epoch expressed in %v) = false", z)
			}
		}
		c.Count("is_base_time_probes_beside_the_epoch_and_periods_away", int64(off0))
		c.Sample("time", 1, map[string]interface{}{"seconds": 1000000000, "decoded": fit.VerifDecodeDateTime(1000000000).Format(time.RFC3339)})
	}
	c.EvalN(1 << 20)
	if nv == 0 {
		c.NontrivialN(1 << 20)
	} else {
		c.Count("violating_values", int64(nv))
	}
	_ = fmt.Sprint
}
