package checks

import (
	"bytes"
	"fmt"
	"strings"
	"unicode/utf8"

	"github.com/tormoder/fit"

	"verifharness/lib"
	"verifharness/ref"
)

func init() { registrars = append(registrars, registerC07) }

func registerC07() {
	lib.Register(&lib.Check{
		ID:    "C07",
		Level: "exploration",
		Rule: "inputs: every device file of the corpus, model streams (narrow definitions, over-long arrays and strings incl. invalid UTF-8, unknown items, developer fields, " +
			"compressed timestamps, component sources) and data-area byte mutants of both with the file CRC recomputed; for every input Decode accepts: Encode (both byte orders) " +
			"must not panic or fail, its output must pass CheckIntegrity and decode with the same per-slot message counts and equal field values (strings up to length-1 bytes, " +
			"arrays up to the profile length and trailing invalids, local times by wall clock), and encoding/decoding the second generation again must reproduce its content exactly. " +
			"Family all-types: every file_id.type value 0..255 followed by 200-300 messages drawn from all known messages (whatever container the tree under test has for a type, the harness does not need to know it). Non-trivial: the input was accepted and has at least one message besides file_id; distinct by input digest",
		Assume: []string{
			"enhanced_speed is not compared when compressed_speed_distance expands (see C18)",
			"known finding F12a (Encode rejects strings that are not valid UTF-8) is matched by the error text plus an invalid string actually present in the decoded File",
		},
		MinNontrivial: 300,
		Families: []lib.Family{
			{Name: "device", N: func(string) uint64 { return uint64(len(Corpus())) }, Run: c07Device},
			{Name: "model", N: func(t string) uint64 { return tierN(t, 5000, 400000) }, Run: c07Model},
			{Name: "mutated", N: func(t string) uint64 { return tierN(t, 6000, 400000) }, Run: c07Mutated},
			{Name: "all-types", N: func(t string) uint64 { return 256 * tierN(t, 4, 40) }, Run: c07AllTypes},
		},
	})
}

func c07Device(c *lib.Ctx, idx uint64) {
	cf := Corpus()[idx]
	c07Monitor(c, cf.Data, "device file "+cf.Path)
}

func c07Plan(rng *lib.Rand, idx uint64) *ref.Plan {
	ft := lib.FileTypes[idx%uint64(len(lib.FileTypes))].Type
	o := lib.GenOpts{
		FileType:      ft,
		Records:       4 + rng.Intn(25),
		Locals:        1 + rng.Intn(4),
		Redefine:      12,
		Narrow:        15,
		BigEndian:     50,
		Unknown:       25,
		BigFileId:     4,
		DevDescribe:   30,
		Compressed:    15,
		NoTimeZero:    true,
		Mesgs:         lib.HostedMesgs(ft),
		ZeroFieldDefs: 3,
		RedefSimilar:  30,
	}
	if rng.Chance(1, 6) {
		o.Mesgs = nil
	}
	if idx%700 == 5 {
		// a long recording: 17 000 - 20 000 (sometimes 33 000 - 36 000, 65 000 - 70 000) records of one message type on one or two slots,
		// redefined now and then so that fields first appear (and disappear) late in the slice
		o.FileType = 4
		o.Mesgs = []uint16{20}
		o.Records = 17000 + rng.Intn(3000)
		long := uint16(20)
		switch idx / 700 % 4 {
		case 1:
			o.Records = 32769 + rng.Intn(3000) // more than two batches of 2^14
			long = 21                          // event: a lighter message, the harness holds several copies of the content
		case 3:
			o.Records = 65537 + rng.Intn(5000)
			long = 21
		}
		o.Mesgs = []uint16{long}
		o.Locals, o.Redefine, o.Unknown, o.Compressed, o.ZeroFieldDefs, o.RedefSimilar, o.Narrow, o.BigFileId = 1+rng.Intn(2), 0, 0, 5, 0, 0, 0, 0
		g := lib.NewPlanGen(rng, o)
		for l := 0; l < o.Locals; l++ {
			g.Define(byte(l), long, true)
		}
		g.Fill()
		for k := 0; k < 3; k++ {
			g.Define(byte(rng.Intn(o.Locals)), long, true)
			g.O.Records = 300 + rng.Intn(700)
			g.Fill()
		}
		return g.P
	}
	return lib.NewPlanGen(rng, o).Fill()
}

// c07AllTypes: every file_id.type value 0..255 (not only the types this harness knows containers
// for), each followed by 200-300 messages drawn from every message the library knows, with PRNG
// field subsets: whatever Decode accepts must be re-encodable.
func c07AllTypes(c *lib.Ctx, idx uint64) {
	rng := lib.NewRand("C07.all-types", idx)
	o := lib.GenOpts{
		FileType:   byte(idx % 256),
		Records:    200 + rng.Intn(100),
		Locals:     1 + rng.Intn(6),
		Redefine:   40,
		BigEndian:  50,
		Unknown:    5,
		NoTimeZero: true,
	}
	b := lib.NewPlanGen(rng, o).Fill().Bytes()
	c.Count(fmt.Sprintf("all_types_streams_type_%d_mod_8", idx%8), 1)
	c07Monitor(c, b, fmt.Sprintf("stream with file_id.type %d and messages of every kind", idx%256))
}

func c07Model(c *lib.Ctx, idx uint64) {
	rng := lib.NewRand("C07.model", idx)
	c07Monitor(c, c07Plan(rng, idx).Bytes(), "model stream")
}

func c07Mutated(c *lib.Ctx, idx uint64) {
	rng := lib.NewRand("C07.mutated", idx)
	var b []byte
	files := Corpus()
	if rng.Chance(1, 3) {
		cf := files[rng.Intn(len(files))]
		if len(cf.Data) > 200000 {
			cf = files[0]
		}
		p, err := ref.Parse(cf.Data, ref.ParseOptions{})
		if err != nil {
			return
		}
		b = append([]byte{}, cf.Data[:p.FrameLen]...)
	} else {
		b = c07Plan(rng, idx).Bytes()
	}
	hs := int(b[0])
	if len(b) < hs+4 {
		return
	}
	for k := 1 + rng.Intn(3); k > 0; k-- {
		pos := hs + rng.Intn(len(b)-hs-2)
		switch rng.Intn(3) {
		case 0:
			b[pos] ^= 1 << uint(rng.Intn(8))
		case 1:
			b[pos] = rng.Byte()
		default:
			b[pos] = []byte{0, 0xFF, 0x7F, 0x80}[rng.Intn(4)]
		}
	}
	crc := ref.CRC(b[:len(b)-2])
	b[len(b)-2], b[len(b)-1] = byte(crc), byte(crc>>8)
	c07Monitor(c, b, "mutated stream")
}

// invalidStrings returns the string fields of the content that are not valid UTF-8.
func invalidStrings(ct *lib.Content) []string {
	var out []string
	walk := func(g uint16, m []ref.Val) {
		for i, v := range m {
			if v.K == 's' && !utf8.ValidString(v.S) {
				out = append(out, fmt.Sprintf("%d.%s=%q", g, lib.FieldName(g, i), v.S))
			}
		}
	}
	walk(0, ct.FileId)
	for _, s := range ct.Slots {
		for _, m := range s.Msgs {
			walk(s.Global, m)
		}
	}
	return out
}

// invalidRaw returns the raw invalid strings.
func invalidRaw(ct *lib.Content) []string {
	var out []string
	walk := func(m []ref.Val) {
		for _, v := range m {
			if v.K == 's' && !utf8.ValidString(v.S) {
				out = append(out, v.S)
			}
		}
	}
	walk(ct.FileId)
	for _, s := range ct.Slots {
		for _, m := range s.Msgs {
			walk(m)
		}
	}
	return out
}

func slotCounts(ct *lib.Content) string {
	var sb strings.Builder
	for _, s := range ct.Slots {
		fmt.Fprintf(&sb, "%s=%d ", s.Name, len(s.Msgs))
	}
	return sb.String()
}

// gen1vs2 compares generation 1 (decoded input) with generation 2 under the
// statement's relaxations. Returns diffs that are not explained.
func c07Compare(c *lib.Ctx, input []byte, g1, g2 *lib.Content, preds []lib.RecPred) bool {
	prof := lib.Profile()
	// Generation 1 as it is written: arrays cut/padded to the profile length.
	e := *g1
	e.FileId = lib.PadArrays(0, g1.FileId)
	e.Slots = make([]lib.Slot, len(g1.Slots))
	for i, s := range g1.Slots {
		ns := s
		ns.Msgs = make([][]ref.Val, len(s.Msgs))
		for j, m := range s.Msgs {
			ns.Msgs[j] = lib.PadArrays(s.Global, m)
		}
		e.Slots[i] = ns
	}
	es := prof.Field(ref.MesgRecord, 73)
	csd := prof.Field(ref.MesgRecord, 8)
	dist := prof.Field(ref.MesgRecord, 5)
	// Records whose compressed_speed_distance did not have exactly 3 bytes in
	// the input: writing it with the profile's fixed length 3 turns it into a
	// source that expands (or stops expanding); speed and distance of such
	// records are then governed by the component rule (C18), not compared here.
	resized := map[int]bool{}
	if csd != nil {
		for _, s := range g1.Slots {
			if s.Name != "Records" || s.Global != ref.MesgRecord {
				continue
			}
			for j, m := range s.Msgs {
				if v := m[csd.Sindex]; v.K == 'a' && !v.Nil && len(v.A) != 3 {
					resized[j] = true
				}
			}
		}
	}
	spd := prof.Field(ref.MesgRecord, 6)
	skip := func(slot string, g uint16, idx int, si int) bool {
		if g != ref.MesgRecord || slot != "Records" {
			return false
		}
		if es != nil && si == es.Sindex && (idx < len(preds) && preds[idx].Expands || resized[idx]) {
			return true
		}
		if resized[idx] && (spd != nil && si == spd.Sindex || dist != nil && si == dist.Sindex) {
			return true
		}
		return false
	}
	diffs := lib.CompareContent(lib.RelaxContent(&e), lib.RelaxContent(g2), lib.CompareOpts{Skip: skip})
	if len(resized) > 0 {
		// What the skip above hides is reported as the listed finding F21, not passed over: a
		// record whose compressed_speed_distance had fewer (or more) than 3 bytes comes back from
		// the round trip with speed / distance (/ enhanced_speed) derived from the padded array.
		strict := func(slot string, g uint16, idx int, si int) bool {
			return skip(slot, g, idx, si) && !resized[idx]
		}
		for _, d := range lib.CompareContent(lib.RelaxContent(&e), lib.RelaxContent(g2), lib.CompareOpts{Skip: strict}) {
			if d.Global == ref.MesgRecord && d.Slot == "Records" && resized[d.Index] && d.Sindex >= 0 &&
				(spd != nil && d.Sindex == spd.Sindex || dist != nil && d.Sindex == dist.Sindex || es != nil && d.Sindex == es.Sindex) {
				c.Known("F21", input, "record %d: compressed_speed_distance had %s bytes in the input; after Encode (padded / cut to 3 bytes) and Decode field #%d is %s instead of %s", d.Index, "other than 3", d.Sindex, d.GotV, d.ExpV)
			}
		}
	}
	for _, d := range diffs {
		if d.Sindex >= 0 && d.ExpV.K == 's' && d.GotV.K == 's' {
			// strings: generation 2 is generation 1 cut to at most length-1 bytes (a cut never splits a rune).
			pf := fieldBySindex(d.Global, d.Sindex)
			if pf != nil {
				max := int(pf.Length) - 1
				a, b := d.ExpV.S, d.GotV.S
				if len(a) > max && len(b) <= max && len(b) >= max-3 && strings.HasPrefix(a, b) {
					c.Count("strings_cut_to_profile_length", 1)
					continue
				}
			}
		}
		if d.Global == ref.MesgRecord && d.Slot == "Records" && dist != nil && d.Sindex == dist.Sindex && d.Index < len(preds) && preds[d.Index].Expands && d.GotV.K == 'u' {
			// record.distance is re-derived from compressed_speed_distance by every decode.
			if lib.ShadowIsUnknown() {
				pr := preds[d.Index]
				lib.ShadowResync(uint32(d.GotV.N), uint32(pr.Raw[1])>>4|uint32(uint8(pr.Raw[2]<<4)))
				continue
			}
			if uint32(d.GotV.N) == preds[d.Index].P56 {
				c.Known("F5", input, "record.distance changes when a decoded file is re-encoded and decoded again: first generation %s, second %s (the accumulator kept its state between the two decodes)", d.Exp, d.Got)
				continue
			}
		}
		c.Violation(input, "re-encoded file decodes differently: %s", d.String())
		return false
	}
	return true
}

func fieldBySindex(g uint16, si int) *ref.PField {
	for _, pf := range lib.Profile().ByMesg[g] {
		if pf.Sindex == si {
			return pf
		}
	}
	return nil
}

func c07Monitor(c *lib.Ctx, x []byte, label string) {
	c.SetInflight(x)
	f1, err, o := lib.GuardedDecode(x)
	c.Eval()
	if o.Panicked || o.Hang {
		// Totality is C01's subject; here the input is simply not usable.
		lib.ShadowUnknown()
		c.Count("inputs_panicking_in_decode", 1)
		return
	}
	lib.TrackFile(f1)
	if err != nil {
		c.Count("inputs_rejected", 1)
		return
	}
	c.Count("inputs_accepted", 1)
	g1 := lib.FileContent(f1)
	inv := invalidStrings(g1)
	nmsgs := 0
	for _, s := range g1.Slots {
		nmsgs += len(s.Msgs)
	}
	for arch := 0; arch < 2; arch++ {
		out1, eerr, eo := lib.GuardedEncode(f1, archOrder(arch))
		c.Eval()
		if eo.Panicked {
			c.Violation(x, "%s: Encode panicked on a decoded File: %s\n%s", label, eo.Panic, eo.Stack)
			return
		}
		if eerr != nil {
			if strings.Contains(eerr.Error(), "as UTF-8 string") {
				// The error quotes the offending string; it must be one of the
				// decoded strings that are not valid UTF-8.
				matched := ""
				for _, raw := range invalidRaw(g1) {
					if strings.Contains(eerr.Error(), "can't encode "+raw+" as UTF-8 string") {
						matched = raw
					}
				}
				if matched != "" {
					c.Known("F12a", x, "Encode fails on a File Decode returned: decoded string %q is not valid UTF-8 (%d such fields in this file)", matched, len(inv))
					return
				}
			}
			c.Violation(x, "%s: Encode fails on a File that Decode returned: %v", label, eerr)
			return
		}
		var ierr error
		io := lib.Guard(func() { ierr = fit.CheckIntegrity(bytes.NewReader(out1), false) })
		c.Eval()
		if io.Panicked || ierr != nil {
			c.Violation(x, "%s: Encode's output fails CheckIntegrity: %v %s", label, ierr, io.Panic)
			return
		}
		f2, derr, do := lib.GuardedDecode(out1)
		c.Eval()
		if do.Panicked || do.Hang {
			lib.ShadowUnknown()
			c.Violation(x, "%s: decoding the re-encoded file panicked: %s", label, do.Panic)
			return
		}
		preds2 := lib.TrackFile(f2)
		if derr != nil {
			c.Violation(x, "%s: the re-encoded file does not decode: %v", label, derr)
			return
		}
		g2 := lib.FileContent(f2)
		if slotCounts(g1) != slotCounts(g2) {
			c.Violation(x, "%s: message counts change over a round trip: %s vs %s", label, slotCounts(g1), slotCounts(g2))
			return
		}
		if !c07Compare(c, x, g1, g2, preds2) {
			return
		}
		// Fixpoint: generation 3 equals generation 2 exactly.
		out2, eerr2, eo2 := lib.GuardedEncode(f2, archOrder(arch))
		c.Eval()
		if eo2.Panicked || eerr2 != nil {
			c.Violation(x, "%s: second-generation Encode failed: %v %s", label, eerr2, eo2.Panic)
			return
		}
		f3, derr3, do3 := lib.GuardedDecode(out2)
		c.Eval()
		if do3.Panicked || do3.Hang {
			lib.ShadowUnknown()
			c.Violation(x, "%s: third-generation Decode panicked: %s", label, do3.Panic)
			return
		}
		preds3 := lib.TrackFile(f3)
		if derr3 != nil {
			c.Violation(x, "%s: third-generation Decode failed: %v", label, derr3)
			return
		}
		g3 := lib.FileContent(f3)
		dist := lib.Profile().Field(ref.MesgRecord, 5)
		diffs := lib.CompareContent(g2, g3, lib.CompareOpts{})
		for _, d := range diffs {
			if d.Global == ref.MesgRecord && d.Slot == "Records" && dist != nil && d.Sindex == dist.Sindex && d.Index < len(preds3) && preds3[d.Index].Expands && d.GotV.K == 'u' && uint32(d.GotV.N) == preds3[d.Index].P56 {
				c.Known("F5", x, "round trip is not a fixpoint for record.distance: second generation %s, third %s", d.Exp, d.Got)
				continue
			}
			if es := lib.Profile().Field(ref.MesgRecord, 73); es != nil && d.Global == ref.MesgRecord && d.Slot == "Records" && d.Sindex == es.Sindex && d.Index < len(preds3) && preds3[d.Index].Expands {
				// enhanced_speed of a record whose compressed_speed_distance expands: the third
				// generation takes it from the speed the expansion produced one generation earlier.
				raw := preds3[d.Index].Raw
				if d.GotV.K == 'u' && d.GotV.N == uint64(raw[0])|uint64(raw[1]&0x0F)<<8 {
					c.Known("F16", x, "round trip is not a fixpoint for record.enhanced_speed when compressed_speed_distance and speed are both present: second generation %s, third %s (= the 12-bit speed slice)", d.Exp, d.Got)
					continue
				}
			}
			c.Violation(x, "%s: one round trip is not a fixpoint: %s", label, d.String())
			return
		}
	}
	c.Count("round_trips_completed", 2)
	if nmsgs > 0 {
		c.Nontrivial(x)
	}
	c.Sample(strings.Fields(label)[0], 2, map[string]interface{}{"input": label, "bytes": len(x), "messages": nmsgs, "invalid_utf8_strings": len(inv)})
}
