package checks

import (
	"bytes"
	"encoding/json"
	"fmt"
	"hash/fnv"
	"os"
	"os/exec"
	"sort"
	"strconv"
	"strings"
	"sync"

	"github.com/tormoder/fit"

	"verifharness/lib"
	"verifharness/ref"
)

func init() { registrars = append(registrars, registerC08) }

func registerC08() {
	lib.Register(&lib.Check{
		ID:    "C08",
		Level: "exploration",
		Rule: "a history is a PRNG sequence of 40-200 calls drawn from Decode (8 option sets), DecodeChained, CheckIntegrity (both modes), DecodeHeader, DecodeHeaderAndFileID, " +
			"Header.MarshalJSON, Encode of API-built Files, Encode of decoded Files (both byte orders), every history also holds the **mode pairs** (ten accepted streams with one unusual trait each - newer / older profile versions, protocol 1.0 and 2.15, big-endian, developer data, compressed timestamps, unknown messages - then fifteen small streams with one defect of definition each, or the other way round), Encode into a writer that fails part-way and Encode of a File with an un-encodable string over a pool of device files, model streams (incl. every accumulated " +
			"component source) and API-built Files; each history runs in its own process; after every call a digest of the result (canonical content / bytes written / error text) " +
			"is compared with (a) an immediate repetition of the call and (b) the digest of the same call made FIRST in a fresh process (one process per distinct call); some Decode calls overwrite every number and slice element of the File they got back before the next call is made; every successful Encode of an API-built File is repeated on the same File value (same bytes), then on the same File value after its messages were edited in place (bytes of a never-encoded identical File), and followed by an Encode of an identical File into a buffer that already holds the first output, which must append the same bytes and leave the earlier ones alone. " +
			"Every history also encodes one whole length group: three Files of one shape whose strings and arrays differ in length (also string fields the profile gives no size). Non-trivial: a call preceded by at least one other call whose digest was compared with its fresh-process baseline; distinct by (history, position)",
		Assume: []string{
			"record.distance of records whose compressed_speed_distance expands is canonicalised through the defect predictor: a value equal to the prediction of known findings F5/F6 is replaced by the reference value and counted as KNOWN-FINDING; any other value stays and shows up as a digest mismatch",
		},
		MinNontrivial: 1000,
		Shards:        1,
		Main:          c08Main,
	})
}

// ---- pools (deterministic, rebuilt identically in every process) ----

type c08Pools struct {
	inputs [][]byte
	names  []string
	chains [][]byte
	files  []func() *fit.File // constructors: a fresh, identical File per call
	// twinGroups: [first, last] input indices of a group of look-alike streams; the last one is
	// the stream the library rejects
	twinFirst    int
	twinGroups   [][2]int
	lengthGroups [][2]int
	crossGroups  [][2]int
	// modeA / modeV: [first, last] input indices of the accepted streams with one unusual trait
	// each and of the streams with one defect each (round 13)
	modeA, modeV [2]int
}

var (
	c08Once sync.Once
	c08P    c08Pools
)

func c08Pool() *c08Pools {
	c08Once.Do(func() {
		for _, cf := range Corpus() {
			if len(cf.Data) <= 400000 {
				c08P.inputs = append(c08P.inputs, cf.Data)
				c08P.names = append(c08P.names, cf.Path)
			}
		}
		for k := uint64(0); k < 40; k++ {
			rng := lib.NewRand("C08.pool.model", k)
			var p *ref.Plan
			if k%2 == 0 {
				ft := c18FileTypes[int(k/2)%len(c18FileTypes)]
				p = lib.NewPlanGen(rng, c18Opts(rng, ft)).Fill()
			} else {
				p = c07Plan(rng, k)
			}
			c08P.inputs = append(c08P.inputs, p.Bytes())
			c08P.names = append(c08P.names, fmt.Sprintf("model#%d", k))
		}
		// Families of near-duplicate inputs: the same stream with one timestamp / local timestamp /
		// scalar moved by a few units. State kept between calls under a coarse key (a cache, a memo)
		// shows when two members of a family meet in one history.
		for k := uint64(0); k < 6; k++ {
			rng := lib.NewRand("C08.pool.near", k)
			fts := []byte{32, 15, 4, 7, 32, 4}
			base := c12Plan(rng, uint64(map[byte]int{4: 0, 32: 2, 15: 3, 7: 4}[fts[k]]))
			for v := 0; v < 5; v++ {
				p := *base
				p.Records = append([]ref.Record(nil), base.Records...)
				delta := []uint64{0, 1, 10, 30, 59}[v]
				// move every 4-byte time field of every data record by delta seconds
				var defs [16]*ref.Record
				prof := lib.Profile()
				for i := range p.Records {
					r := &p.Records[i]
					if r.IsDef {
						defs[r.Local] = r
						continue
					}
					d := defs[r.Local]
					if d == nil || !prof.Known[d.Global] {
						continue
					}
					nd := make([][]byte, len(r.Data))
					copy(nd, r.Data)
					for fi, f := range d.Fields {
						pf := prof.Field(d.Global, f.Num)
						if pf != nil && pf.Kind == ref.KTimeLocal && f.Size == 4 && fi < len(nd) {
							val := ref.Get(nd[fi], 4, d.Arch)
							if val != 0xFFFFFFFF && val+delta < 0xFFFFFFF0 {
								b := make([]byte, 4)
								ref.Put(b, val+delta, 4, d.Arch)
								nd[fi] = b
							}
						}
					}
					r.Data = nd
				}
				c08P.inputs = append(c08P.inputs, p.Bytes())
				c08P.names = append(c08P.names, fmt.Sprintf("near#%d+%ds", k, delta))
			}
		}
		// Twins: a stream V in which a known message defines one of its fields in a way the
		// library rejects (an error, on its own), and streams P in which a message number the
		// profile does not know - V's number plus 256, plus 512, with the high byte 0xFF - uses
		// the very same definition bytes (valid: nothing is known about that message). Whatever a
		// decoder remembers about definitions it has seen, V must still be rejected after P.
		c08P.twinFirst = len(c08P.inputs)
		prof := lib.Profile()
		twinStream := func(g uint16, num, size, base byte) []byte {
			pl := &ref.Plan{HeaderSize: 14, Proto: 0x20, ProfVer: 2115}
			data := make([]byte, size)
			for i := range data {
				data[i] = byte(0x40 + i)
			}
			pl.Records = append(pl.Records,
				ref.Record{IsDef: true, Local: 0, Global: 0, Fields: []ref.FieldDef{{Num: 0, Size: 1, Base: 0}}},
				ref.Record{Local: 0, Data: [][]byte{{4}}},
				ref.Record{IsDef: true, Local: 1, Global: g, Fields: []ref.FieldDef{{Num: num, Size: size, Base: base}}},
				ref.Record{Local: 1, Data: [][]byte{data}})
			return pl.Bytes()
		}
		// (chosen without calling the library: the pool must not leave anything behind in the
		// process that builds it)
		for gi, g := range []uint16{20, 19, 18, 21, 23, 34} {
			var pf *ref.PField
			for _, f := range prof.ByMesg[g] {
				if bt := ref.BaseTypes[f.Base]; f.Kind == ref.KNative && !f.Array && bt.Integer && f.Num != 253 && f.Num != 254 {
					pf = f
					break
				}
			}
			if pf == nil {
				continue
			}
			cand := [][2]byte{{0x07, 6}, {0x88, 4}, {0x89, 8}}[gi%3] // a string / a float where the profile has an integer
			first := len(c08P.inputs)
			for i, alias := range []uint16{g + 256, g + 512, 0xFF00 | g} {
				if !prof.Known[alias] {
					c08P.inputs = append(c08P.inputs, twinStream(alias, pf.Num, cand[1], cand[0]))
					c08P.names = append(c08P.names, fmt.Sprintf("twinP#%d.%d", g, i))
				}
			}
			c08P.inputs = append(c08P.inputs, twinStream(g, pf.Num, cand[1], cand[0]))
			c08P.names = append(c08P.names, fmt.Sprintf("twinV#%d", g))
			c08P.twinGroups = append(c08P.twinGroups, [2]int{first, len(c08P.inputs) - 1})
		}
		// Mode pairs (round 13): accepted streams that each have one unusual trait a decoder could
		// take note of (a profile version newer / far newer / older than the library's, protocol
		// 1.0 with a 12-byte header, a high minor protocol version, big-endian definitions only,
		// developer data, compressed timestamps, unknown messages), and small streams that each
		// have one defect or oddity of definition (a scalar defined wider than its base type with
		// the matching base type, a size that is no multiple of the element size, an undefined base
		// type byte, a record on an undefined slot, a protocol major version from the future), with
		// plain headers. Every history decodes all of the first kind and then all of the second
		// (or the other way round): what a stream gets must not depend on what was seen before.
		{
			c08P.modeA[0] = len(c08P.inputs)
			addA := func(name string, pl *ref.Plan) {
				c08P.inputs = append(c08P.inputs, pl.Bytes())
				c08P.names = append(c08P.names, "modeA#"+name)
			}
			small := func(k uint64, o lib.GenOpts) *ref.Plan {
				rng := lib.NewRand("C08.pool.modes", k)
				o.FileType, o.Records, o.Locals = 4, 6, 2
				if o.Mesgs == nil {
					o.Mesgs = []uint16{20, 19, 18, 21, 23}
				}
				return lib.NewPlanGen(rng, o).Fill()
			}
			for i, pv := range []uint16{fit.ProfileVersion + 1, 0xFFFF, fit.ProfileVersion + 1000, 100} {
				pl := small(uint64(i), lib.GenOpts{})
				pl.ProfVer = pv
				addA(fmt.Sprintf("profile-version-%d", pv), pl)
			}
			pl := small(10, lib.GenOpts{HeaderSize: 12})
			pl.Proto = 0x10
			addA("protocol-1.0-header-12", pl)
			pl = small(11, lib.GenOpts{})
			pl.Proto = 0x2F
			addA("protocol-2.15", pl)
			addA("big-endian", small(12, lib.GenOpts{BigEndian: 100}))
			addA("developer-data", small(13, lib.GenOpts{Unknown: 100, DevDescribe: 100}))
			addA("compressed-timestamps", small(14, lib.GenOpts{Compressed: 70, TimeModel: 100}))
			addA("unknown-messages", small(15, lib.GenOpts{Unknown: 100, Unknown253: 100}))
			c08P.modeA[1] = len(c08P.inputs) - 1
			c08P.modeV[0] = len(c08P.inputs)
			addV := func(name string, proto byte, pv uint16, recs ...ref.Record) {
				pl := &ref.Plan{HeaderSize: 14, Proto: proto, ProfVer: pv}
				pl.Records = append(pl.Records,
					ref.Record{IsDef: true, Local: 0, Global: 0, Fields: []ref.FieldDef{{Num: 0, Size: 1, Base: 0}}},
					ref.Record{Local: 0, Data: [][]byte{{4}}})
				pl.Records = append(pl.Records, recs...)
				c08P.inputs = append(c08P.inputs, pl.Bytes())
				c08P.names = append(c08P.names, "modeV#"+name)
			}
			one := func(g uint16, num, size, base byte) []ref.Record {
				data := make([]byte, size)
				for i := range data {
					data[i] = byte(0x21 + i)
				}
				return []ref.Record{
					{IsDef: true, Local: 1, Global: g, Fields: []ref.FieldDef{{Num: num, Size: size, Base: base}}},
					{Local: 1, Data: [][]byte{data}},
					{IsDef: true, Local: 2, Global: 20, Fields: []ref.FieldDef{{Num: 3, Size: 1, Base: 0x02}}},
					{Local: 2, Data: [][]byte{{77}}}}
			}
			pvs := []uint16{fit.ProfileVersion, 2000, 100}
			for i, w := range [][4]int{
				{20, 3, 2, 0x02},  // record.heart_rate uint8 in 2 bytes
				{20, 3, 4, 0x02},  // ... in 4 bytes
				{20, 2, 4, 0x84},  // record.altitude uint16 in 4 bytes
				{20, 2, 6, 0x84},  // ... in 6 bytes
				{19, 25, 2, 0x00}, // lap.sport enum in 2 bytes
				{18, 5, 3, 0x00},  // session.sport enum in 3 bytes
				{20, 5, 8, 0x86},  // record.distance uint32 in 8 bytes
				{20, 0, 8, 0x85},  // record.position_lat sint32 in 8 bytes
				{20, 2, 3, 0x84},  // uint16 in 3 bytes: no multiple of the element size
				{20, 5, 6, 0x86},  // uint32 in 6 bytes
				{20, 3, 1, 0x27},  // undefined base type byte
				{20, 3, 0, 0x02},  // zero size
				{0, 0, 2, 0x00},   // a second file_id with its type in 2 bytes
			} {
				addV(fmt.Sprintf("def-%d.%d-size%d-base%#x", w[0], w[1], w[2], w[3]), 0x20, pvs[i%3], one(uint16(w[0]), byte(w[1]), byte(w[2]), byte(w[3]))...)
			}
			addV("undefined-slot", 0x20, 2000, ref.Record{Local: 7, Data: [][]byte{{1, 2, 3}}})
			addV("protocol-3.0", 0x30, 2000, one(20, 3, 1, 0x02)...)
			c08P.modeV[1] = len(c08P.inputs) - 1
		}
		// chains of accepted inputs
		rng := lib.NewRand("C08.pool.chains", 0)
		for k := 0; k < 4; k++ {
			var ch []byte
			for n := 2 + rng.Intn(2); n > 0; n-- {
				ch = append(ch, c08P.inputs[c08P.modeA[0]-1-rng.Intn(40)]...)
			}
			c08P.chains = append(c08P.chains, ch)
		}
		// chains that yield no File at all (empty source, a first header that is cut or is none),
		// and one whose second member is cut inside its header
		c08P.chains = append(c08P.chains, []byte{}, []byte{14, 0x20}, []byte("not a FIT header at all"),
			append(append([]byte{}, c08P.inputs[c08P.modeA[0]-1]...), 14, 0x10, 0x43))
		for k := uint64(0); k < 30; k++ {
			k := k
			c08P.files = append(c08P.files, func() *fit.File {
				rng := lib.NewRand("C08.pool.files", k)
				ft := lib.FileTypes[k%uint64(len(lib.FileTypes))].Type
				if k >= 17 {
					ft = []byte{4, 6, 4, 32}[k%4] // more activity/course files: messages with component sources
				}
				return lib.GenFile(rng, lib.FileGenOpts{FileType: ft, MaxPerSlot: 4, Subset: 3})
			})
		}
		// Files with several slices of more than 1024 messages (an hour-long activity, a long
		// course, a day of monitoring): whatever Encode does differently for long slices must
		// still give identical bytes every time.
		for k := uint64(0); k < 4; k++ {
			k := k
			c08P.files = append(c08P.files, func() *fit.File {
				rng := lib.NewRand("C08.pool.bigfiles", k)
				ft := []byte{4, 6, 32, 4}[k]
				return lib.GenFile(rng, lib.FileGenOpts{FileType: ft, MaxPerSlot: 4, Subset: 3, Phased: true, PhasedMin: 1024, PhasedSpan: 400})
			})
		}
		// Groups of Files of one shape whose strings and arrays differ in length (also in fields
		// for which the profile gives no size): whatever Encode derives from the first value it
		// meets must not stay behind for the next File. Every history encodes one whole group.
		for gi, ft := range []byte{34, 34, 4, 2, 5, 6, 1} {
			first := len(c08P.files)
			for v := 0; v < 3; v++ {
				gi, ft, v := gi, ft, v
				c08P.files = append(c08P.files, func() *fit.File {
					f := lib.GenFile(lib.NewRand("C08.pool.lengths", uint64(gi)), lib.FileGenOpts{FileType: ft, MaxPerSlot: 3, Subset: 3})
					lib.VaryLengths(f, v+gi)
					return f
				})
			}
			c08P.lengthGroups = append(c08P.lengthGroups, [2]int{first, len(c08P.files) - 1})
		}
		// Cross pairs: a message type that one file type holds as a slice and another as a single
		// message (lap: activity / course; ...). First the File with the slice, then the File with
		// the single message that has the very same fields set: what Encode worked out for the one
		// must not reach the other. Every history encodes one pair in that order.
		for pi, cp := range lib.CrossPairs() {
			for v := 0; v < 2; v++ {
				cp, seed := cp, uint64(pi*2+v)
				first := len(c08P.files)
				c08P.files = append(c08P.files,
					func() *fit.File { return lib.CrossFile(cp, seed, true, 3) },
					func() *fit.File { return lib.CrossFile(cp, seed, false, 1) })
				c08P.crossGroups = append(c08P.crossGroups, [2]int{first, first + 1})
			}
		}
	})
	return &c08P
}

func h64(parts ...[]byte) string {
	h := fnv.New64a()
	for _, p := range parts {
		h.Write(p)
		h.Write([]byte{0xFE})
	}
	return strconv.FormatUint(h.Sum64(), 16)
}

// canonContent hashes the observable content of f; record.distance values
// that equal the known-finding prediction are replaced by the reference value.
func canonContent(f *fit.File, known map[string]int) string {
	if f == nil {
		return "<nil>"
	}
	preds := lib.TrackFile(f)
	ct := lib.FileContent(f)
	dist := lib.Profile().Field(ref.MesgRecord, 5)
	for si := range ct.Slots {
		s := &ct.Slots[si]
		if s.Name != "Records" || s.Global != ref.MesgRecord || dist == nil {
			continue
		}
		for j := range s.Msgs {
			if j >= len(preds) || !preds[j].Expands {
				continue
			}
			v := s.Msgs[j][dist.Sindex]
			if lib.ShadowIsUnknown() {
				continue
			}
			class, f5, f6 := lib.ClassifyDistance(uint32(v.N), preds[j])
			if class == "known" {
				if f5 {
					known["F5"]++
				}
				if f6 {
					known["F6"]++
				}
				s.Msgs[j][dist.Sindex] = ref.U(uint64(preds[j].Ref))
			}
		}
	}
	var sb strings.Builder
	sb.WriteString(contentKey(ct))
	fmt.Fprintf(&sb, "|uf%v|um%v", ct.UnknownFields, ct.UnknownMessages)
	return h64([]byte(sb.String()))
}

// canonFile tracks a decoded File and replaces, in the File itself, every
// record.distance that equals the known-finding prediction by the reference
// value, so that what is handed to Encode does not depend on history through F5.
func canonFile(f *fit.File, known map[string]int) {
	if f == nil {
		return
	}
	preds := lib.TrackFile(f)
	var recs []*fit.RecordMsg
	if a, err := f.Activity(); err == nil && a != nil {
		recs = a.Records
	} else if cf, err := f.Course(); err == nil && cf != nil {
		recs = cf.Records
	}
	for j, r := range recs {
		if r == nil || j >= len(preds) || !preds[j].Expands || lib.ShadowIsUnknown() {
			continue
		}
		class, f5, f6 := lib.ClassifyDistance(r.Distance, preds[j])
		if class == "known" {
			if f5 {
				known["F5"]++
			}
			if f6 {
				known["F6"]++
			}
			r.Distance = preds[j].Ref
		}
	}
}

// c08Call executes one call by id and returns its digest.
func c08Call(id string, known map[string]int) (digest string, err error) {
	p := c08Pool()
	parts := strings.Split(id, ":")
	arg := func(i int) int {
		v, _ := strconv.Atoi(parts[i])
		return v
	}
	var out string
	var callErr error
	o := lib.Guard(func() {
		switch parts[0] {
		case "D":
			m := arg(2)
			opts := optionList(m&7, &countingLogger{}, uint64(arg(1)*7+m))
			if m >= 16 {
				// the options come as a prefix of one process-wide slice with spare capacity (an
				// application that keeps its option list and passes opts[:k]...): what one call is
				// given must still be there, unchanged, for the next
				opts = c08SharedOpts()[:m-16]
			}
			f, e := fit.Decode(bytes.NewReader(p.inputs[arg(1)]), opts...)
			out = canonContent(f, known) + "|" + lib.ErrText(e)
			if m&8 != 0 {
				// the caller owns the returned File: overwrite every number and slice element in it
				lib.ScribbleFile(f)
			}
		case "DC":
			fs, e := fit.DecodeChained(bytes.NewReader(p.chains[arg(1)]))
			// (deep equality of the result includes whether the slice is nil or empty)
			out = fmt.Sprintf("nil=%v len=%d:", fs == nil, len(fs))
			for _, f := range fs {
				out += canonContent(f, known) + ","
			}
			out += "|" + lib.ErrText(e)
		case "CI":
			e := fit.CheckIntegrity(bytes.NewReader(p.inputs[arg(1)]), arg(2) == 1)
			out = lib.ErrText(e)
		case "DH":
			h, e := fit.DecodeHeader(bytes.NewReader(p.inputs[arg(1)]))
			out = fmt.Sprintf("%v|%s", h, lib.ErrText(e))
		case "DHF":
			h, id, e := fit.DecodeHeaderAndFileID(bytes.NewReader(p.inputs[arg(1)]))
			out = fmt.Sprintf("%v|%v|%s", h, lib.MsgVals(reflectValue(id)), lib.ErrText(e))
		case "HJ":
			h, _ := fit.DecodeHeader(bytes.NewReader(p.inputs[arg(1)]))
			b, e := h.MarshalJSON()
			var back map[string]interface{}
			if e == nil {
				e = json.Unmarshal(b, &back)
			}
			out = string(b) + "|" + lib.ErrText(e)
		case "E":
			f := p.files[arg(1)]()
			var buf bytes.Buffer
			e := fit.Encode(&buf, f, archOrder(arg(2)))
			out = h64(buf.Bytes()) + "|" + lib.ErrText(e)
			if e == nil {
				// the same File value once more: Encode must not have changed it
				var again bytes.Buffer
				if e3 := fit.Encode(&again, f, archOrder(arg(2))); e3 != nil || !bytes.Equal(again.Bytes(), buf.Bytes()) {
					callErr = fmt.Errorf("Encode of the same File value a second time: error %v, %d bytes where the first call wrote %d, or different bytes", e3, again.Len(), buf.Len())
				}
				// (This step comes directly after the two Encodes of f: whatever Encode remembers about
				// the File it saw last is still in place.)
				// The caller edits messages of the File in place (same slices, same message
				// objects, other field subsets) and encodes again: the bytes must be those of an
				// identical File that was never encoded before.
				if lib.EditInPlace(f, uint64(arg(1))) > 0 {
					fresh := p.files[arg(1)]()
					lib.EditInPlace(fresh, uint64(arg(1)))
					var b1, b2 bytes.Buffer
					e4 := fit.Encode(&b1, f, archOrder(arg(2)))
					e5 := fit.Encode(&b2, fresh, archOrder(arg(2)))
					if (e4 == nil) != (e5 == nil) || e4 == nil && !bytes.Equal(b1.Bytes(), b2.Bytes()) {
						callErr = fmt.Errorf("Encode after the File was edited in place writes something else than Encode of an identical File that was never encoded before (errors %v / %v, %d / %d bytes)", e4, e5, b1.Len(), b2.Len())
					}
				}
				// Array fields that are windows of larger buffers (spare capacity, another File's
				// data right behind them): Encode reads them, it does not write into the caller's
				// memory - the next File must still find its data there.
				if shared := p.files[arg(1)](); shared != nil {
					check := lib.ShareArrays(shared)
					var sb bytes.Buffer
					if es := fit.Encode(&sb, shared, archOrder(arg(2))); es != nil || !bytes.Equal(sb.Bytes(), buf.Bytes()) {
						callErr = fmt.Errorf("Encode of an identical File whose array fields have spare capacity: error %v, or bytes different from the first call", es)
					} else if msg := check(); msg != "" {
						callErr = fmt.Errorf("Encode wrote into the caller's memory behind an array field (where another File's field may live): %s", msg)
					}
				}
				g, de := fit.Decode(bytes.NewReader(buf.Bytes()))
				out += "|" + canonContent(g, known) + "|" + lib.ErrText(de)
				lib.ScribbleFile(g)
				// Encode writes identical bytes for identical Files.
				// The second call appends to a buffer that already holds the
				// first output (a destination with a history of its own).
				first := append([]byte{}, buf.Bytes()...)
				buf2 := bytes.NewBuffer(append([]byte{}, first...))
				f2 := p.files[arg(1)]()
				e2 := fit.Encode(buf2, f2, archOrder(arg(2)))
				b2 := buf2.Bytes()
				if e2 != nil || len(b2) != 2*len(first) || !bytes.Equal(b2[:len(first)], first) || !bytes.Equal(b2[len(first):], first) {
					callErr = fmt.Errorf("Encode of an identical File into a buffer that already holds the first output: error %v, %d bytes appended where the first call wrote %d, or different bytes", e2, len(b2)-len(first), len(first))
				}
			}
		case "EF": // Encode into a writer that fails on its n-th write
			f := p.files[arg(1)]()
			w := &failWriter{n: arg(2)}
			e := fit.Encode(w, f, archOrder(0))
			out = lib.ErrText(e)
		case "EB": // Encode of a File holding a string that is not valid UTF-8
			f := p.files[arg(1)]()
			f.FileId.ProductName = "bad\xff\xfeutf8"
			var buf bytes.Buffer
			e := fit.Encode(&buf, f, archOrder(arg(2)))
			out = lib.ErrText(e)
		case "ED":
			f, e := fit.Decode(bytes.NewReader(p.inputs[arg(1)]))
			canonFile(f, known)
			if e != nil {
				out = "decode:" + e.Error()
				return
			}
			var buf bytes.Buffer
			e = fit.Encode(&buf, f, archOrder(arg(2)))
			out = h64(buf.Bytes()) + "|" + lib.ErrText(e)
		default:
			out = "unknown call " + id
		}
	})
	if o.Panicked || o.Hang {
		lib.ShadowUnknown()
		return "", fmt.Errorf("panic: %s", o.Panic)
	}
	if callErr != nil {
		return "", callErr
	}
	return h64([]byte(out)), nil
}

var c08Shared []fit.DecodeOption

// c08SharedOpts returns the process-wide option slice: three options, capacity eight.
func c08SharedOpts() []fit.DecodeOption {
	if c08Shared == nil {
		c08Shared = make([]fit.DecodeOption, 0, 8)
		c08Shared = append(c08Shared, fit.WithUnknownFields(), fit.WithUnknownMessages(), fit.WithLogger(&countingLogger{}))
	}
	return c08Shared
}

// c08RandomCall draws a call id.
func c08RandomCall(rng *lib.Rand) string {
	p := c08Pool()
	switch rng.Intn(12) {
	case 0, 1, 2, 3:
		return fmt.Sprintf("D:%d:%d", rng.Intn(len(p.inputs)), []int{0, 0, 0, 7, 2, 4, 1, 3, 8, 15, 16, 17, 18, 19, 17, 19}[rng.Intn(16)])
	case 4:
		return fmt.Sprintf("DC:%d", rng.Intn(len(p.chains)))
	case 5:
		return fmt.Sprintf("CI:%d:%d", rng.Intn(len(p.inputs)), rng.Intn(2))
	case 6:
		return fmt.Sprintf("DH:%d", rng.Intn(len(p.inputs)))
	case 7:
		return fmt.Sprintf("DHF:%d", rng.Intn(len(p.inputs)))
	case 8:
		return fmt.Sprintf("HJ:%d", rng.Intn(len(p.inputs)))
	case 9:
		return fmt.Sprintf("E:%d:%d", rng.Intn(len(p.files)), rng.Intn(2))
	case 10:
		switch rng.Intn(3) {
		case 0:
			return fmt.Sprintf("EF:%d:%d", rng.Intn(len(p.files)), 1+rng.Intn(3))
		case 1:
			return fmt.Sprintf("EB:%d:%d", rng.Intn(len(p.files)), rng.Intn(2))
		}
		return fmt.Sprintf("E:%d:%d", rng.Intn(len(p.files)), rng.Intn(2))
	default:
		return fmt.Sprintf("ED:%d:%d", rng.Intn(len(p.inputs)), rng.Intn(2))
	}
}

func c08History(h uint64) []string {
	rng := lib.NewRand("C08.history", h)
	n := 40 + rng.Intn(161)
	// Few distinct inputs per history, so that calls meet each other's leftovers.
	calls := make([]string, 0, n)
	var favourites []string
	for i := 0; i < 12; i++ {
		favourites = append(favourites, c08RandomCall(rng))
	}
	// two members of one near-duplicate family, so that they meet in this history
	p := c08Pool()
	if nnear := 30; len(p.inputs) >= nnear {
		first := -1
		for i, nm := range p.names {
			if strings.HasPrefix(nm, "near#") {
				first = i
				break
			}
		}
		if first >= 0 {
			fam := rng.Intn(6)
			a, b := rng.Intn(5), rng.Intn(5)
			favourites = append(favourites, fmt.Sprintf("D:%d:0", first+fam*5+a), fmt.Sprintf("D:%d:0", first+fam*5+b), fmt.Sprintf("ED:%d:%d", first+fam*5+b, rng.Intn(2)))
		}
	}
	for i := 0; i < n; i++ {
		if rng.Chance(2, 3) {
			calls = append(calls, favourites[rng.Intn(len(favourites))])
		} else {
			calls = append(calls, c08RandomCall(rng))
		}
	}
	// one group of same-shape Files with different string / array lengths per history
	if len(p.lengthGroups) > 0 {
		lg := p.lengthGroups[rng.Intn(len(p.lengthGroups))]
		pos := rng.Intn(len(calls))
		var ins []string
		for _, i := range rng.Perm(lg[1] - lg[0] + 1) {
			ins = append(ins, fmt.Sprintf("E:%d:%d", lg[0]+i, rng.Intn(2)))
		}
		calls = append(calls[:pos], append(ins, calls[pos:]...)...)
	}
	// one cross pair per history: the slice-holding File, then the single-message one
	if len(p.crossGroups) > 0 {
		cg := p.crossGroups[rng.Intn(len(p.crossGroups))]
		pos := rng.Intn(len(calls))
		a := rng.Intn(2)
		ins := []string{fmt.Sprintf("E:%d:%d", cg[0], a), fmt.Sprintf("E:%d:%d", cg[1], a)}
		calls = append(calls[:pos], append(ins, calls[pos:]...)...)
	}
	// mode pairs: every accepted stream with an unusual trait, then every stream with a defect of
	// definition - in one history in three the other way round
	if p.modeA[1] > p.modeA[0] && p.modeV[1] > p.modeV[0] {
		var as, vs []string
		for _, i := range rng.Perm(p.modeA[1] - p.modeA[0] + 1) {
			as = append(as, fmt.Sprintf("D:%d:0", p.modeA[0]+i))
		}
		for _, i := range rng.Perm(p.modeV[1] - p.modeV[0] + 1) {
			vs = append(vs, fmt.Sprintf("D:%d:0", p.modeV[0]+i))
		}
		ins := append(as, vs...)
		if rng.Chance(1, 3) {
			ins = append(vs, as...)
		}
		pos := rng.Intn(len(calls))
		calls = append(calls[:pos], append(ins, calls[pos:]...)...)
	}
	// one twin group per history: the valid look-alikes, then the stream that must be rejected
	if len(p.twinGroups) > 0 {
		tg := p.twinGroups[rng.Intn(len(p.twinGroups))]
		pos := rng.Intn(len(calls))
		var ins []string
		for i := tg[0]; i <= tg[1]; i++ {
			ins = append(ins, fmt.Sprintf("D:%d:%d", i, []int{0, 7}[rng.Intn(2)]))
		}
		calls = append(calls[:pos], append(ins, calls[pos:]...)...)
	}
	return calls
}

// C08Sub implements the child-process modes: "fresh <id>" and "history <h>".
func C08Sub(args []string) int {
	known := map[string]int{}
	switch args[0] {
	case "fresh":
		d, err := c08Call(args[1], known)
		if err != nil {
			fmt.Printf("FAILED %v\n", err)
			return 0
		}
		fmt.Printf("DIGEST %s\n", d)
	case "history":
		h, _ := strconv.ParseUint(args[1], 10, 64)
		type rec struct {
			Call   string `json:"call"`
			Digest string `json:"digest"`
			Repeat string `json:"repeat"`
			Err    string `json:"err,omitempty"`
		}
		var out struct {
			Calls []rec          `json:"calls"`
			Known map[string]int `json:"known"`
		}
		for _, id := range c08History(h) {
			d, err := c08Call(id, known)
			r := rec{Call: id, Digest: d}
			if err != nil {
				r.Err = err.Error()
			} else {
				d2, err2 := c08Call(id, known)
				r.Repeat = d2
				if err2 != nil {
					r.Err = err2.Error()
				}
			}
			out.Calls = append(out.Calls, r)
		}
		out.Known = known
		json.NewEncoder(os.Stdout).Encode(out)
	}
	return 0
}

func c08Main(c *lib.Ctx) {
	nh := int(tierN(c.Tier, 48, 1600))
	self, _ := os.Executable()
	// Histories and the set of distinct calls.
	hist := make([][]string, nh)
	distinct := map[string]bool{}
	for h := range hist {
		hist[h] = c08History(uint64(h))
		for _, id := range hist[h] {
			distinct[id] = true
		}
	}
	ids := make([]string, 0, len(distinct))
	for id := range distinct {
		ids = append(ids, id)
	}
	sort.Strings(ids)
	// Baselines: each distinct call made first in a fresh process.
	base := map[string]string{}
	var mu sync.Mutex
	sem := make(chan struct{}, 16)
	var wg sync.WaitGroup
	for _, id := range ids {
		wg.Add(1)
		sem <- struct{}{}
		go func(id string) {
			defer wg.Done()
			defer func() { <-sem }()
			out, err := exec.Command(self, "c08", "fresh", id).Output()
			mu.Lock()
			defer mu.Unlock()
			s := strings.TrimSpace(string(out))
			if err != nil || !strings.HasPrefix(s, "DIGEST ") {
				base[id] = "ERROR:" + s + fmt.Sprint(err)
				return
			}
			base[id] = strings.TrimPrefix(s, "DIGEST ")
		}(id)
	}
	wg.Wait()
	c.Count("distinct_calls_with_fresh_process_baseline", int64(len(ids)))
	for _, id := range ids {
		if strings.HasPrefix(base[id], "ERROR:") {
			c.Violation([]byte(id), "call %s made first in a fresh process panicked, crashed or failed its own repeat test: %s", id, base[id])
			return
		}
	}
	// Histories, each in its own process.
	type hres struct {
		Calls []struct {
			Call, Digest, Repeat, Err string
		}
		Known map[string]int
	}
	results := make([]*hres, nh)
	errs := make([]string, nh)
	for h := 0; h < nh; h++ {
		wg.Add(1)
		sem <- struct{}{}
		go func(h int) {
			defer wg.Done()
			defer func() { <-sem }()
			out, err := exec.Command(self, "c08", "history", strconv.Itoa(h)).Output()
			var r hres
			if err != nil || json.Unmarshal(out, &r) != nil {
				errs[h] = fmt.Sprintf("history %d crashed: %v: %s", h, err, tail(out, 300))
				return
			}
			results[h] = &r
		}(h)
	}
	wg.Wait()
	kinds := map[string]int64{}
	for h, r := range results {
		if r == nil {
			c.Violation([]byte(strings.Join(hist[h], " ")), "%s", errs[h])
			continue
		}
		for k, n := range r.Known {
			for i := 0; i < n; i++ {
				c.Known(k, nil, "record.distance in a decoded file equals the prediction of the listed defect (history %d)", h)
			}
		}
		for pos, cr := range r.Calls {
			c.Eval()
			c.Eval()
			kinds[strings.Split(cr.Call, ":")[0]]++
			witness := []byte(fmt.Sprintf("history %d position %d call %s; preceding calls: %s", h, pos, cr.Call, strings.Join(hist[h][:pos], " ")))
			if cr.Err != "" {
				c.Violation(witness, "call %s at position %d of history %d: %s", cr.Call, pos, h, cr.Err)
				break
			}
			if cr.Digest != cr.Repeat {
				c.Violation(witness, "call %s repeated immediately gives a different result (history %d, position %d)", cr.Call, h, pos)
				break
			}
			if cr.Digest != base[cr.Call] {
				c.Violation(witness, "call %s at position %d of history %d returns something else than the same call made first in a fresh process (in: %s, names: %s)", cr.Call, pos, h, c08Describe(cr.Call), "see replay file for the preceding calls")
				break
			}
			if pos > 0 {
				c.Nontrivial([]byte(fmt.Sprintf("%d/%d", h, pos)))
			}
		}
	}
	for k, n := range kinds {
		c.Count("calls_"+k, n)
	}
	c.Count("histories", int64(nh))
	if nh > 0 && results[0] != nil {
		n := minInt(6, len(hist[0]))
		c.Sample("history", 1, map[string]interface{}{"history": 0, "length": len(hist[0]), "first_calls": hist[0][:n]})
	}
}

func c08Describe(id string) string {
	p := c08Pool()
	parts := strings.Split(id, ":")
	if len(parts) < 2 {
		return id
	}
	i, _ := strconv.Atoi(parts[1])
	switch parts[0] {
	case "D", "CI", "DH", "DHF", "HJ", "ED":
		if i < len(p.names) {
			return parts[0] + " on " + p.names[i]
		}
	case "E":
		return fmt.Sprintf("Encode of API-built file #%d", i)
	case "DC":
		return fmt.Sprintf("DecodeChained on chain #%d", i)
	}
	return id
}
