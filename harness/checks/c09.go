package checks

import (
	"bytes"
	"encoding/binary"
	"encoding/json"
	"fmt"
	"io"
	"os"
	"os/exec"
	"path/filepath"
	"regexp"
	"sort"
	"strconv"
	"strings"
	"sync"
	"sync/atomic"
	"time"

	"github.com/tormoder/fit"

	"verifharness/lib"
	"verifharness/ref"
)

func init() { registrars = append(registrars, registerC09) }

func registerC09() {
	lib.Register(&lib.Check{
		ID:    "C09",
		Level: "exploration",
		Rule: "harness and library are built with -race; each run starts G in {2,4,16,64} goroutines, every goroutine owning private copies of its inputs and private Files and " +
			"executing a PRNG sequence of Decode (with and without options and a formatting logger, on intact and on corrupted private copies) / DecodeChained / CheckIntegrity / DecodeHeader / DecodeHeaderAndFileID / Header.MarshalJSON / Encode of decoded Files / NewHeader+NewFile+constructors+Encode+Decode of API-built Files / Encode of Files larger than 4 MiB (all goroutines at once, in runs of a second build without race detector) / 96 and 200 goroutines that are all inside one reading entry point at the same moment (readers that wait, inside the first Read, for the others; same build, and one race-detector run in eight with 80) / pairs of calls of which one is parked inside a Read of its own reader - first byte, header, middle, CRC bytes - until the other, independent one has returned (it must return; it gets two minutes), likewise an Encode parked inside the 1st, 2nd or 3rd Write of its own destination while an independent Encode or Decode runs / String methods through readers and " +
			"writers that yield and deliver short reads, so that calls interleave inside the library; pool A = inputs without accumulated component sources, pool B = with. " +
			"Oracle 1: every race-detector report (GORACE halt_on_error=0, log parsed) is classified by the innermost repository frames of its two stacks; oracle 2: every call's " +
			"result digest equals the digest of the same call run alone (taken before the goroutines start, or - in every second run, a 'cold start' - after they have finished, so that the process's first calls into the library are concurrent). Non-trivial: a call that overlapped in time (logical clock) with a call of " +
			"another goroutine; distinct by (run, goroutine, position)",
		Assume: []string{
			"known finding F5 signature: both innermost repository frames in {(*RecordMsg).expandComponents, (*uint32Accumulator).accumulate, uint32NewAccumulator}; under pool B record.distance of records with compressed_speed_distance is excluded from the digest",
			"the race detector only sees accesses that happen in the produced executions; absence of reports is not race freedom",
		},
		MinNontrivial: 2000,
		Shards:        1,
		Main:          c09Main,
	})
}

type c09Result struct {
	Calls          int64            `json:"calls"`
	Overlapping    int64            `json:"overlapping"`
	Pairs          map[string]int64 `json:"pairs"`
	Mismatch       []string         `json:"mismatch"`
	Panics         []string         `json:"panics"`
	Goroutines     int              `json:"goroutines"`
	Pool           string           `json:"pool"`
	Cold           bool             `json:"cold"`
	MaxInFlight    int64            `json:"max_in_flight"`
	DependentPairs int64            `json:"dependent_pairs"`
}

// c09Inputs returns the two pools: A without accumulated component sources, B with.
func c09Inputs() (a, b [][]byte) {
	prof := lib.Profile()
	_ = prof
	// The three inputs every goroutine hammers most (indices 0-2) include two streams dense in
	// local timestamps (monitoring, monitoring_info, activity), each with its own zone offsets:
	// whatever the library shares between decodes of different zones is exercised on every record.
	for k := uint64(0); k < 2; k++ {
		rng := lib.NewRand("C09.poolA.localtime", k)
		ft := []byte{32, 4}[k]
		o := lib.GenOpts{FileType: ft, Mesgs: c12Mesgs[ft], Records: 150, Locals: 3, BigEndian: 50, MaxFields: 3, NoTimeZero: true, TimeModel: 100,
			ForceFields: func(r *lib.Rand, g uint16) []byte {
				out := []byte{253}
				if r.Chance(9, 10) {
					switch g {
					case 34:
						out = append(out, 5)
					case 55:
						out = append(out, 11)
					case 103:
						out = append(out, 0)
					}
				}
				return out
			}}
		a = append(a, lib.NewPlanGen(rng, o).Fill().Bytes())
	}
	// ... and, third of the inputs hammered most, an activity file whose 240 activity messages
	// carry local timestamps in four zones in turn (+1 h, +5:30, -8 h, +2 h): every message asks
	// for another zone than the one before it, in every goroutine, all the time
	{
		const R = 0x3B9ACA00
		put := func(v uint64) []byte {
			b := make([]byte, 4)
			ref.Put(b, v, 4, 0)
			return b
		}
		p := &ref.Plan{HeaderSize: 14, Proto: 0x20, ProfVer: 2115}
		p.Records = append(p.Records,
			ref.Record{IsDef: true, Local: 0, Global: 0, Fields: []ref.FieldDef{{Num: 0, Size: 1, Base: 0}}},
			ref.Record{Local: 0, Data: [][]byte{{4}}},
			ref.Record{IsDef: true, Local: 1, Global: 34, Fields: []ref.FieldDef{{Num: 253, Size: 4, Base: 0x86}, {Num: 5, Size: 4, Base: 0x86}}})
		for i := 0; i < 240; i++ {
			off := []int64{3600, 19800, -28800, 7200}[i%4]
			t := uint64(R + 10*i)
			p.Records = append(p.Records, ref.Record{Local: 1, Data: [][]byte{put(t), put(uint64(int64(t) + off))}})
		}
		a = append(a, p.Bytes())
	}
	for k := uint64(0); k < 10; k++ {
		rng := lib.NewRand("C09.poolA", k)
		ft := []byte{2, 1, 5, 32, 9}[k%5]
		o := lib.GenOpts{FileType: ft, Mesgs: lib.HostedMesgs(ft), Records: 20 + rng.Intn(40), Locals: 3, BigEndian: 50, Unknown: 20, MaxFields: 5}
		a = append(a, lib.NewPlanGen(rng, o).Fill().Bytes())
	}
	for _, cf := range Corpus() {
		if strings.Contains(cf.Path, "Settings") || strings.Contains(cf.Path, "Workout") || strings.Contains(cf.Path, "WeightScale") {
			a = append(a, cf.Data)
		}
	}
	for k := uint64(0); k < 8; k++ {
		rng := lib.NewRand("C09.poolB", k)
		o := c18Opts(rng, 4)
		o.Records = 30 + rng.Intn(40)
		b = append(b, lib.NewPlanGen(rng, o).Fill().Bytes())
	}
	for _, cf := range Corpus() {
		if strings.Contains(cf.Path, "compressed-speed-distance") || strings.Contains(cf.Path, "activity-small") {
			b = append(b, cf.Data)
		}
	}
	return
}

func c09Digest(f *fit.File, poolB bool) string {
	if f == nil {
		return "<nil>"
	}
	ct := lib.FileContent(f)
	if poolB {
		prof := lib.Profile()
		for si := range ct.Slots {
			s := &ct.Slots[si]
			if s.Global != ref.MesgRecord {
				continue
			}
			for _, num := range []byte{5, 19, 29} {
				if pf := prof.Field(ref.MesgRecord, num); pf != nil {
					for j := range s.Msgs {
						s.Msgs[j][pf.Sindex] = ref.Val{}
					}
				}
			}
		}
	}
	return h64([]byte(contentKey(ct)))
}

// slowBuffer is a destination that takes its time over large writes (a disk, a network
// connection): 80 ms for every write of a megabyte or more.
type slowBuffer struct{ bytes.Buffer }

func (w *slowBuffer) Write(p []byte) (int, error) {
	if len(p) >= 1<<20 {
		time.Sleep(80 * time.Millisecond)
	}
	return w.Buffer.Write(p)
}

type yieldWriter struct{ buf bytes.Buffer }

func (w *yieldWriter) Write(p []byte) (int, error) {
	return w.buf.Write(p)
}

// c09Call runs call kind k on private data.
// gatedWriter calls gate once, inside the nth Write, before the bytes are passed on.
type gatedWriter struct {
	w    io.Writer
	nth  int
	n    int
	gate func()
}

func (g *gatedWriter) Write(p []byte) (int, error) {
	g.n++
	if g.n == g.nth && g.gate != nil {
		g.gate()
		g.gate = nil
	}
	return g.w.Write(p)
}

// gatedReader calls gate once, inside the first Read: the call into the library is then in
// flight, holding whatever it acquired on entry, while gate waits for the other goroutines.
type gatedReader struct {
	r    io.Reader
	gate func()
	at   int // bytes delivered before the gate is passed (0: inside the first Read)
	n    int
}

func (g *gatedReader) Read(p []byte) (int, error) {
	if g.gate != nil {
		if g.n >= g.at {
			g.gate()
			g.gate = nil
		} else if len(p) > g.at-g.n {
			p = p[:g.at-g.n]
		}
	}
	n, err := g.r.Read(p)
	g.n += n
	return n, err
}

func c09Call(kind int, in []byte, rng *lib.Rand, poolB bool) string {
	return c09CallGated(kind, in, rng, poolB, nil, 0)
}

func c09CallGated(kind int, in []byte, rng *lib.Rand, poolB bool, gate func(), gateAt int) string {
	ch := lib.Chunker{Kind: "rand", Size: 64, R: rng, Yield: true}
	if len(in) > 8192 {
		ch.Size = 1500
	}
	var r io.Reader = lib.NewReader(in, ch)
	if gate != nil {
		r = &gatedReader{r: r, gate: gate, at: gateAt}
	}
	var out string
	o := lib.Guard(func() {
		switch kind {
		case 0, 1:
			f, e := fit.Decode(r)
			out = c09Digest(f, poolB) + lib.ErrText(e)
		case 2:
			fs, e := fit.DecodeChained(&gatedReader{r: lib.NewReader(append(append([]byte{}, in...), in...), ch), gate: gate, at: gateAt})
			for _, f := range fs {
				out += c09Digest(f, poolB)
			}
			out += lib.ErrText(e)
		case 3:
			out = lib.ErrText(fit.CheckIntegrity(r, false))
		case 4:
			h, e := fit.DecodeHeader(r)
			b, _ := h.MarshalJSON()
			out = string(b) + lib.ErrText(e)
		case 5:
			h, id, e := fit.DecodeHeaderAndFileID(r)
			out = fmt.Sprint(h, lib.MsgVals(reflectValue(id))) + lib.ErrText(e)
		case 8: // all options, formatting logger
			f, e := fit.Decode(r, fit.WithLogger(&countingLogger{}), fit.WithUnknownFields(), fit.WithUnknownMessages())
			out = c09Digest(f, poolB) + lib.ErrText(e)
			if f != nil {
				out += fmt.Sprint(f.UnknownFields, f.UnknownMessages)
			}
		case 9: // error paths: a corrupted private copy, with options
			bad := append([]byte{}, in...)
			if len(bad) > 40 {
				bad[len(bad)/2] ^= 0x55
				bad[20] ^= 0x01
			}
			f, e := fit.Decode(lib.NewReader(bad, ch), fit.WithUnknownFields())
			out = c09Digest(f, poolB) + lib.ErrText(e)
			out += lib.ErrText(fit.CheckIntegrity(bytes.NewReader(bad), false))
		case 10: // a File built through the public API (NewHeader, NewFile, constructors), encoded and decoded
			seed := uint64(len(in)) % 23
			frng := lib.NewRand("C09.file", seed)
			fts := []byte{2, 5, 9, 1, 32, 3, 7}
			g := lib.GenFile(frng, lib.FileGenOpts{FileType: fts[seed%uint64(len(fts))], MaxPerSlot: 6, Subset: 3, OutOfDomain: true})
			if g == nil {
				out = "nofile"
				return
			}
			w := &yieldWriter{}
			e := fit.Encode(w, g, archOrder(int(seed)%2))
			out = h64(w.buf.Bytes()) + lib.ErrText(e)
			if e == nil {
				f2, e2 := fit.Decode(lib.NewReader(w.buf.Bytes(), ch))
				out += c09Digest(f2, false) + lib.ErrText(e2)
			}
		case 11: // String methods and small helpers
			var sb strings.Builder
			for v := 0; v < 300; v += 1 + rng.Intn(3) {
				sb.WriteString(fit.GarminProduct(v * 7).String())
				sb.WriteString(fit.MesgNum(v).String())
				sb.WriteString(fit.Sport(v).String())
				sb.WriteString(fit.Manufacturer(v).String())
				sb.WriteString(fit.FileType(v).String())
			}
			h := fit.NewHeader(fit.V20, true)
			sb.WriteString(h.String())
			sb.WriteString(fit.NewLatitude(int32(len(in)) * 1000).String())
			sb.WriteString(fit.CurrentProtocolVersion().String())
			out = h64([]byte(sb.String()))
			// the PRNG draws above must not make the digest depend on the goroutine: use lengths only
			out = fmt.Sprint(len(sb.String()) > 0)
		case 12: // Encode of a large API-built File (more than 4 MiB on the wire), one of three sizes
			n := 18000 + int(in[0])%3*700
			f, err := fit.NewFile(fit.FileTypeActivity, fit.NewHeader(fit.V20, true))
			if err != nil {
				out = "newfile:" + err.Error()
				return
			}
			f.FileId = *fit.NewFileIdMsg()
			f.FileId.Type = fit.FileTypeActivity
			a, _ := f.Activity()
			m := fit.VerifNewMesg(18)
			lib.FillMesg(lib.NewRand("C09.big", uint64(in[0])%3), 18, m, &lib.FileGenOpts{Subset: 4})
			s := m.Interface().(*fit.SessionMsg)
			a.Sessions = make([]*fit.SessionMsg, n)
			for i := range a.Sessions {
				a.Sessions[i] = s
			}
			var buf slowBuffer
			e := fit.Encode(&buf, f, archOrder(int(in[0])%2))
			ie := fit.CheckIntegrity(bytes.NewReader(buf.Bytes()), false)
			out = fmt.Sprintf("%d|%s|%s|%v|%s", buf.Len(), h64(buf.Bytes()), lib.ErrText(e), f.CRC, lib.ErrText(ie))
		case 13: // a failed Encode (the destination gives up in the middle), then a good one
			f, e := fit.Decode(bytes.NewReader(in))
			if e != nil {
				out = "decode:" + e.Error()
				return
			}
			fw := &failWriter{n: 2 + len(in)%2}
			e1 := fit.Encode(fw, f, archOrder(len(in)%2))
			w := &yieldWriter{}
			e2 := fit.Encode(w, f, archOrder(len(in)%2))
			ie := fit.CheckIntegrity(bytes.NewReader(w.buf.Bytes()), false)
			out = lib.ErrText(e1) + "|" + lib.ErrText(e2) + "|" + lib.ErrText(ie)
			if !poolB {
				out += "|" + h64(w.buf.Bytes())
			}
		default:
			f, e := fit.Decode(bytes.NewReader(in))
			if e != nil {
				out = "decode:" + e.Error()
				return
			}
			w := &yieldWriter{}
			e = fit.Encode(w, f, archOrder(kind%2))
			if poolB {
				out = lib.ErrText(e) // encoded bytes carry the (racy) derived fields
			} else {
				out = h64(w.buf.Bytes()) + lib.ErrText(e)
			}
		}
	})
	if o.Panicked || o.Hang {
		return "PANIC:" + o.Panic
	}
	return h64([]byte(out))
}

// c09Kind maps the index into c09KindNames to the switch value of c09Call (6 and 7 fall into its
// default branch, which uses kind%2 as byte order; the added kinds are 8..11).
func c09Kind(k int) int { return k }

var c09KindNames = []string{"Decode", "Decode", "DecodeChained", "CheckIntegrity", "DecodeHeader+MarshalJSON", "DecodeHeaderAndFileID", "Decode+Encode", "Decode+Encode", "Decode(options)", "Decode(corrupted,options)+CheckIntegrity", "NewFile+Encode+Decode", "String methods", "Encode of a File larger than 4 MiB", "Decode+Encode into a destination that fails on its 2nd or 3rd write, then Encode again"}

// C09Sub: "run <index> <goroutines> <pool> <callsPerGoroutine>".
func C09Sub(args []string) int {
	runIdx, _ := strconv.ParseUint(args[1], 10, 64)
	g, _ := strconv.Atoi(args[2])
	poolB := args[3] == "B"
	per, _ := strconv.Atoi(args[4])
	a, b := c09Inputs()
	pool := a
	if poolB {
		pool = b
	}
	// Sequential baseline: every (kind, input) alone. In every second run it is taken AFTER the
	// concurrent phase ("cold start"): the goroutines then make the process's very first calls into the
	// library at the same moment, so lazily initialised package state is first touched concurrently.
	cold := runIdx%2 == 1
	big := os.Getenv("C09_BIG") != ""
	many := os.Getenv("C09_MANY") != ""
	var arrived [5]int64
	var maxInFlight int64
	base := map[[2]int]string{}
	takeBase := func() {
		for k := 0; k < len(c09KindNames); k++ {
			if k == 12 {
				// the large Encode has three variants, selected by a one-byte pseudo input; it is
				// only used in the runs of the build without race detector (C09_BIG)
				for v := 0; v < 3 && big; v++ {
					base[[2]int{k, v}] = c09Call(12, []byte{byte(v)}, lib.NewRand("C09.base", uint64(k*100+v)), poolB)
				}
				continue
			}
			for i := range pool {
				base[[2]int{k, i}] = c09Call(c09Kind(k), pool[i], lib.NewRand("C09.base", uint64(k*100+i)), poolB)
			}
		}
	}
	if !cold {
		takeBase()
	}
	res := c09Result{Pairs: map[string]int64{}, Goroutines: g, Pool: args[3]}
	type obsCall struct {
		g, n, k, i int
		d          string
	}
	var observed []obsCall
	if many {
		// Dependent I/O: call A is parked inside a Read of its own reader (at the first byte,
		// inside the header, in the middle, at the two CRC bytes) until call B - another entry
		// point call on another reader - has returned. B does not depend on A in any way, so B
		// must return while A waits; a call that holds something other calls need while it waits
		// for its caller's I/O would keep B from returning. (B gets two minutes.)
		pairs := 0
		for _, ka := range []int{8, 0, 2, 3, 5, 9} {
			for _, kb := range []int{8, 0, 3, 2} {
				if len(res.Mismatch) > 0 {
					break // one stalled pair is reported; the others would only add minutes
				}
				ia, ib := (ka+kb)%3, (ka+2*kb+1)%3
				inA := append([]byte{}, pool[ia]...)
				inB := append([]byte{}, pool[ib]...)
				for _, at := range []int{0, 13, len(inA) / 2, len(inA) - 2, len(inA) - 1} {
					parked, doneB := make(chan struct{}), make(chan struct{})
					stalled := false
					var dA, dB string
					var wg sync.WaitGroup
					wg.Add(2)
					go func() {
						defer wg.Done()
						<-parked
						dB = c09Call(kb, inB, lib.NewRand("C09.depsB", uint64(ka*100+kb)), poolB)
						close(doneB)
					}()
					go func() {
						defer wg.Done()
						gate := func() {
							close(parked)
							select {
							case <-doneB:
							case <-time.After(2 * time.Minute):
								stalled = true
							}
						}
						dA = c09CallGated(ka, inA, lib.NewRand("C09.depsA", uint64(ka*100+kb)), poolB, gate, at)
						select {
						case <-parked: // the gate was passed
						default:
							close(parked) // A never read that far (an entry point that stops early)
						}
					}()
					wg.Wait()
					pairs++
					if stalled {
						res.Mismatch = append(res.Mismatch, fmt.Sprintf("%s did not return within two minutes while another call (%s) was waiting inside a Read of its own reader at offset %d of %d: one call's wait for its caller's I/O holds up an independent call", c09KindNames[kb], c09KindNames[ka], at, len(inA)))
						break
					}
					observed = append(observed, obsCall{-1, pairs, ka, ia, dA}, obsCall{-2, pairs, kb, ib, dB})
				}
			}
		}
		// round 13: the same on the output side. Encode A is parked inside a Write of its own
		// destination (the 1st, 2nd or 3rd Write it makes) until an independent call B - Encode
		// of another File into another destination, or a Decode - has returned.
		wpairs := 0
		for _, kb := range []int{0, 1, 2} {
			for _, nth := range []int{1, 2, 3} {
				for _, order := range []binary.ByteOrder{binary.LittleEndian, binary.BigEndian} {
					if len(res.Mismatch) > 0 {
						break
					}
					inA := append([]byte{}, pool[(kb+nth)%len(pool)]...)
					inB := append([]byte{}, pool[(kb+2*nth+1)%len(pool)]...)
					fa, ea := fit.Decode(bytes.NewReader(inA))
					fb, eb := fit.Decode(bytes.NewReader(inB))
					if ea != nil || eb != nil || fa == nil || fb == nil {
						continue
					}
					var want bytes.Buffer
					// (the same File value is encoded alone first: a second Decode of inA would differ in
					// record.distance, known finding F5)
					if fit.Encode(&want, fa, order) != nil {
						continue
					}
					parked, doneB := make(chan struct{}), make(chan struct{})
					stalled := false
					var gotA bytes.Buffer
					var errA error
					var wg sync.WaitGroup
					wg.Add(2)
					go func() {
						defer wg.Done()
						<-parked
						switch kb {
						case 0:
							var sink bytes.Buffer
							fit.Encode(&sink, fb, binary.LittleEndian)
						case 1:
							var sink bytes.Buffer
							fit.Encode(&sink, fb, binary.BigEndian)
						default:
							fit.Decode(bytes.NewReader(inB))
						}
						close(doneB)
					}()
					go func() {
						defer wg.Done()
						gw := &gatedWriter{w: &gotA, nth: nth, gate: func() {
							close(parked)
							select {
							case <-doneB:
							case <-time.After(2 * time.Minute):
								stalled = true
							}
						}}
						errA = fit.Encode(gw, fa, order)
						select {
						case <-parked:
						default:
							close(parked) // Encode made fewer than nth Writes
						}
					}()
					wg.Wait()
					wpairs++
					if stalled {
						res.Mismatch = append(res.Mismatch, fmt.Sprintf("%s did not return within two minutes while an Encode of another File was waiting inside Write number %d of its own destination: one call's wait for its caller's I/O holds up an independent call", []string{"Encode (little endian)", "Encode (big endian)", "Decode"}[kb], nth))
						break
					}
					if errA != nil || !bytes.Equal(gotA.Bytes(), want.Bytes()) {
						res.Mismatch = append(res.Mismatch, fmt.Sprintf("Encode that waited inside Write number %d of its destination while another call ran wrote %d bytes (error %v); alone it writes %d bytes", nth, gotA.Len(), errA, want.Len()))
						break
					}
				}
			}
		}
		res.Calls += int64(2 * (pairs + wpairs))
		res.DependentPairs = int64(pairs + wpairs)
	}
	var clock, goFlag int64
	type span struct {
		g, kind    int
		start, end int64
	}
	spans := make([][]span, g)
	var mu sync.Mutex
	var wg sync.WaitGroup
	start := make(chan struct{})
	for gi := 0; gi < g; gi++ {
		wg.Add(1)
		go func(gi int) {
			defer wg.Done()
			rng := lib.NewRand("C09.goroutine", runIdx*1000+uint64(gi))
			// private copies
			mine := make([][]byte, len(pool))
			for i := range pool {
				mine[i] = append([]byte{}, pool[i]...)
			}
			<-start
			for atomic.LoadInt64(&goFlag) == 0 {
			}
			if many {
				// every goroutine makes one call per reading entry point whose first Read waits
				// until all G goroutines are inside the same entry point (or, if the library lets
				// fewer in at a time, until a grace period has passed): G calls in flight at once
				for ph, k := range []int{4, 3, 5, 0, 2} {
					i := (gi + ph) % 3
					gate := func() {
						atomic.AddInt64(&arrived[ph], 1)
						for w := 0; atomic.LoadInt64(&arrived[ph]) < int64(g) && w < 3000; w++ {
							time.Sleep(time.Millisecond)
						}
						if n := atomic.LoadInt64(&arrived[ph]); n > atomic.LoadInt64(&maxInFlight) {
							atomic.StoreInt64(&maxInFlight, n)
						}
					}
					t0 := atomic.AddInt64(&clock, 1)
					d := c09CallGated(k, mine[i], rng, poolB, gate, 0)
					t1 := atomic.AddInt64(&clock, 1)
					spans[gi] = append(spans[gi], span{gi, k, t0, t1})
					mu.Lock()
					observed = append(observed, obsCall{gi, -1 - ph, k, i, d})
					mu.Unlock()
				}
			}
			for n := 0; n < per; n++ {
				k := rng.Intn(len(c09KindNames) - 1) // the large Encode (kind 12) is not drawn at random
				if k == 12 {
					k = 13
				}
				i := rng.Intn(3) // few distinct inputs: all goroutines hammer the same message kinds
				if rng.Chance(1, 5) {
					i = rng.Intn(len(mine))
				}
				if big && n < 4 {
					// in these runs every goroutine starts with four Encodes of Files of more than
					// 4 MiB (three different Files among them) into slow destinations
					k, i = 12, (gi+n)%3
				}
				t0 := atomic.AddInt64(&clock, 1)
				in := mine[i]
				if k == 12 {
					in = []byte{byte(i)}
				}
				d := c09Call(c09Kind(k), in, rng, poolB)
				t1 := atomic.AddInt64(&clock, 1)
				spans[gi] = append(spans[gi], span{gi, k, t0, t1})
				mu.Lock()
				observed = append(observed, obsCall{gi, n, k, i, d})
				mu.Unlock()
			}
		}(gi)
	}
	close(start)
	time.Sleep(20 * time.Millisecond)
	atomic.StoreInt64(&goFlag, 1)
	wg.Wait()
	if cold {
		takeBase()
	}
	for _, ob := range observed {
		if ob.d != base[[2]int{ob.k, ob.i}] {
			if len(res.Mismatch) < 10 {
				res.Mismatch = append(res.Mismatch, fmt.Sprintf("goroutine %d call %d (%s on input %d): result differs from the same call run alone", ob.g, ob.n, c09KindNames[ob.k], ob.i))
			}
			if strings.HasPrefix(ob.d, "PANIC:") && len(res.Panics) < 5 {
				res.Panics = append(res.Panics, ob.d)
			}
		}
	}
	res.Cold = cold
	res.MaxInFlight = maxInFlight
	// Overlap statistics from the logical clock.
	var all []span
	for _, s := range spans {
		all = append(all, s...)
	}
	sort.Slice(all, func(i, j int) bool { return all[i].start < all[j].start })
	for i, s := range all {
		res.Calls++
		over := false
		for j := i + 1; j < len(all) && all[j].start < s.end; j++ {
			if all[j].g != s.g {
				over = true
				a, b := c09KindNames[s.kind], c09KindNames[all[j].kind]
				if a > b {
					a, b = b, a
				}
				res.Pairs[a+" || "+b]++
			}
		}
		if over {
			res.Overlapping++
		}
	}
	json.NewEncoder(os.Stdout).Encode(res)
	return 0
}

var raceFrameRe = regexp.MustCompile(`^\s+(github\.com/tormoder/fit[^\s(]*(?:\([^)]*\))?[^\s(]*)\(`)

// parseRaceLog splits a race detector log into reports and returns for each
// the innermost repository frame of each stack.
func parseRaceLog(text string) (reports [][]string) {
	blocks := strings.Split(text, "WARNING: DATA RACE")
	for _, b := range blocks[1:] {
		end := strings.Index(b, "==================")
		if end >= 0 {
			b = b[:end]
		}
		var frames []string
		for _, stack := range strings.Split(b, "\n\n") {
			lines := strings.Split(strings.TrimSpace(stack), "\n")
			if len(lines) == 0 {
				continue
			}
			head := strings.TrimSpace(lines[0])
			if !(strings.HasPrefix(head, "Read at") || strings.HasPrefix(head, "Write at") || strings.HasPrefix(head, "Previous read at") || strings.HasPrefix(head, "Previous write at") || strings.HasPrefix(head, "Read by") || strings.HasPrefix(head, "Write by")) {
				continue
			}
			inner, outer := "(no repository frame)", ""
			for _, l := range lines[1:] {
				t := strings.TrimSpace(l)
				if strings.HasPrefix(t, "github.com/tormoder/fit") {
					// function name up to the argument list
					if i := strings.LastIndex(t, "("); i > 0 {
						t = t[:i]
					}
					t = strings.TrimPrefix(t, "github.com/tormoder/fit.")
					if outer == "" {
						inner = t
					}
					outer = t
				}
			}
			frames = append(frames, inner+" [via "+outer+"]")
		}
		reports = append(reports, frames)
	}
	return
}

func f5Frame(f string) bool {
	if i := strings.Index(f, " [via "); i >= 0 {
		f = f[:i]
	}
	return strings.Contains(f, "(*RecordMsg).expandComponents") || strings.Contains(f, "(*uint32Accumulator).accumulate") || strings.Contains(f, "uint32NewAccumulator")
}

func c09Main(c *lib.Ctx) {
	self, _ := os.Executable()
	nruns := int(tierN(c.Tier, 8, 64))
	per := int(tierN(c.Tier, 500, 2500))
	wd := filepath.Join(lib.OutDir(), "work", "C09")
	os.MkdirAll(wd, 0o755)
	gs := []int{2, 4, 16, 64}
	sigs := map[string]int64{}
	var totalOverlap, totalCalls, maxInFlight, depPairs int64
	pairs := map[string]int64{}
	var rmu sync.Mutex
	var rwg sync.WaitGroup
	rsem := make(chan struct{}, 4)
	norace := os.Getenv("VERIF_VCHECK_NORACE")
	extra := 0
	if norace != "" {
		extra = int(tierN(c.Tier, 4, 16))
	} else {
		c.Count("runs_without_race_detector_not_possible", 1)
	}
	for r := 0; r < nruns+extra; r++ {
		rwg.Add(1)
		rsem <- struct{}{}
		go func(r int) {
			defer rwg.Done()
			defer func() { <-rsem }()
			g := gs[r%4]
			pool := "A"
			if r/4%2 == 1 {
				pool = "B"
			}
			calls := per / g * 4
			if calls < 30 {
				calls = 30
			}
			logBase := filepath.Join(wd, fmt.Sprintf("race-%d", r))
			cmd := exec.Command(self, "c09", "run", strconv.Itoa(r), strconv.Itoa(g), pool, strconv.Itoa(calls))
			cmd.Env = append(os.Environ(), "GORACE=halt_on_error=0 log_path="+logBase+" history_size=3", "GOMAXPROCS=8")
			if r%8 == 5 {
				// one race-detector run in eight: 80 goroutines that are all inside the same entry
				// point at the same moment (gated readers), then a short PRNG sequence each
				g = 80
				cmd = exec.Command(self, "c09", "run", strconv.Itoa(r), strconv.Itoa(g), pool, "12")
				cmd.Env = append(os.Environ(), "GORACE=halt_on_error=0 log_path="+logBase+" history_size=3", "GOMAXPROCS=8", "C09_MANY=1")
			}
			if r >= nruns {
				// runs of the build without race detector: value oracle only, several times the
				// throughput, and Encodes of Files larger than 4 MiB into slow destinations
				cmd = exec.Command(norace, "c09", "run", strconv.Itoa(r), strconv.Itoa([]int{6, 12}[r%2]), "A", strconv.Itoa(calls*2))
				cmd.Env = append(os.Environ(), "GOMAXPROCS=8", "C09_BIG=1")
				if (r-nruns)%4 >= 2 {
					// ... or many goroutines (96, 200) that are all inside the same entry point
					// at the same moment, then a short PRNG sequence each
					g = []int{96, 200}[r%2]
					cmd = exec.Command(norace, "c09", "run", strconv.Itoa(r), strconv.Itoa(g), "A", "12")
					cmd.Env = append(os.Environ(), "GOMAXPROCS=8", "C09_MANY=1")
				}
			}
			out, err := cmd.Output()
			rmu.Lock()
			defer rmu.Unlock()
			var res c09Result
			if jerr := json.Unmarshal(out, &res); jerr != nil {
				c.Violation([]byte(fmt.Sprintf("run %d", r)), "concurrent run %d (G=%d, pool %s) crashed: %v: %s", r, g, pool, err, tail(out, 400))
				return
			}
			c.EvalN(res.Calls)
			totalCalls += res.Calls
			totalOverlap += res.Overlapping
			for k, v := range res.Pairs {
				pairs[k] += v
			}
			if res.MaxInFlight > maxInFlight {
				maxInFlight = res.MaxInFlight
			}
			depPairs += res.DependentPairs
			for _, m := range res.Mismatch {
				c.Violation([]byte(fmt.Sprintf("run %d G=%d pool %s seed %d", r, g, pool, lib.Seed())), "run %d (G=%d, pool %s): %s %v", r, g, pool, m, res.Panics)
				break
			}
			// Race reports.
			logs, _ := filepath.Glob(logBase + ".*")
			for _, lp := range logs {
				b, _ := os.ReadFile(lp)
				for _, frames := range parseRaceLog(string(b)) {
					sort.Strings(frames)
					sig := strings.Join(frames, " <-> ")
					sigs[sig]++
					allF5 := len(frames) > 0
					for _, f := range frames {
						if !f5Frame(f) {
							allF5 = false
						}
					}
					if allF5 {
						c.Known("F5", nil, "data race between concurrent decodes: %s", sig)
						continue
					}
					keep := filepath.Join(lib.OutDir(), "replay", fmt.Sprintf("C09-race-run%d-s%d.log", r, lib.Seed()))
					os.MkdirAll(filepath.Dir(keep), 0o755)
					os.WriteFile(keep, b, 0o644)
					c.Violation([]byte(sig), "data race in run %d (G=%d, pool %s): %s (log: %s)", r, g, pool, sig, keep)
				}
				os.Remove(lp)
			}
			if pool == "A" && r < 4 {
				c.Count("pool_A_runs", 1)
			}
			c.Count(fmt.Sprintf("runs_G%d_pool%s", g, pool), 1)
		}(r)
	}
	rwg.Wait()
	c.NontrivialN(totalOverlap)
	c.Count("calls", totalCalls)
	c.Count("most_calls_of_one_entry_point_in_flight_at_once", maxInFlight)
	c.Count("call_pairs_where_one_waits_in_its_reader_until_the_other_returned", depPairs)
	c.Count("calls_overlapping_another_goroutine", totalOverlap)
	c.Count("distinct_overlapping_call_kind_pairs", int64(len(pairs)))
	c.Count("race_report_signatures", int64(len(sigs)))
	c.Res.Extra["overlap_pairs"] = pairs
	c.Res.Extra["race_signatures"] = sigs
	c.Sample("run", 1, map[string]interface{}{"goroutines": 16, "pool": "A", "calls_per_goroutine": per / 16 * 4, "call_kinds": c09KindNames})
}
