// Package checks holds one file per property.
package checks

import "sync"

var regOnce sync.Once

// RegisterAll registers every check.
func RegisterAll() {
	regOnce.Do(func() {
		for _, f := range registrars {
			f()
		}
	})
}

var registrars []func()

func tierN(tier string, quick, thorough uint64) uint64 {
	if tier == "thorough" {
		return thorough
	}
	return quick
}
