package checks

import (
	"bytes"
	"fmt"
	"os"
	"os/exec"
	"path/filepath"
	"regexp"
	"runtime"
	"sort"
	"strconv"
	"strings"
	"sync"
	"sync/atomic"
	"time"

	"github.com/tormoder/fit"

	"verifharness/lib"
)

func init() { registrars = append(registrars, registerC20) }

type c20Const struct {
	Name  string
	Value uint64
}

type c20Type struct {
	Name   string
	Bits   int
	Signed bool
	Str    func(uint64) string
	Consts []c20Const
}

// c20Types is filled by a file generated from the tree under test by
// cmd/gentypes (build tag c20table); ./run generates it for C20.
var c20Types []c20Type

// c20ConstsOutsideTypesGo: constants of generated types found in other files of the package.
var c20ConstsOutsideTypesGo int

func registerC20() {
	lib.Register(&lib.Check{
		ID:    "C20",
		Level: "exploration",
		Rule: "the constant table is generated at check time from the types.go of the tree under test (go/parser; constants of the generated types declared in other files of the package are included) and compiled into the checker; a case is one (type, value): " +
			"every constant of every generated type, every remaining value of 8- and 16-bit types, and for 32-bit types all neighbours of constants, every single-bit and two-bit value, every OR / sum / difference of two named values, plus 200000 PRNG values; " +
			"before any sequential use in the worker process, 8 goroutines make the process's first String() calls of each type at the same moment; non-trivial: String() was called and compared (named value: one of the names without the type prefix; other value: Type(n)); the value checks are repeated in a binary built with GOARCH=386 (32-bit int) when the host can run it; plus regeneration of types_string.go with the repository's own stringer (verif-tagged fitgen; six runs with GOMAXPROCS default, 1, 3, 6, 7, 12, and one with a fitgen built for GOARCH=386) compared byte for byte; plus complete fitgen runs on two bundled workbooks (one of them with -verbose) whose types_string.go must equal what the stringer step alone writes for that run's types.go, also when the command is run again into the same directory over an outdated types_string.go with a later modification time; plus a value-major pass: about 500 numbers each printed through every generated type in rotation (sequentially and from four goroutines), so that what one type printed for a number cannot leak into the next type's answer",
		Assume:        []string{"Bool (hand-written in types_man.go, prints prefixed names by design) is reported separately and not judged by the generated-type rule"},
		MinNontrivial: 100000,
		WorkerProcs:   4,
		Families: []lib.Family{
			{Name: "types", N: func(string) uint64 { return uint64(len(c20Types)) }, Run: c20OneType},
		},
		Main:       c20Main,
		Exhaustive: func(string) bool { return true },
	})
}

// c20OneType checks one type in a worker process: first a storm of goroutines that all make the
// process's FIRST String() calls for this type at the same moment (lazily built tables must be safe
// to use from several goroutines; a fatal "concurrent map" error kills the worker and is reported
// as a violation by the parent), then every value sequentially.
func c20OneType(c *lib.Ctx, idx uint64) {
	t := c20Types[idx]
	c.SetInflight([]byte("first-use storm on type " + t.Name))
	bad, msg := c20Storm(t, 8)
	c.EvalN(int64(8 * len(t.Consts)))
	if bad > 0 {
		c.Violation(nil, "%s (%d wrong results from 8 goroutines)", msg, bad)
		return
	}
	c.Count("first_use_storms", 1)
	nconst := 0
	for _, t := range []c20Type{t} {
		names := map[uint64][]string{}
		for _, k := range t.Consts {
			nconst++
			if !strings.HasPrefix(k.Name, t.Name) {
				c.Violation(nil, "constant %s of type %s does not carry the type prefix", k.Name, t.Name)
				continue
			}
			names[k.Value] = append(names[k.Value], strings.TrimPrefix(k.Name, t.Name))
		}
		mask := ^uint64(0)
		if t.Bits < 64 {
			mask = 1<<uint(t.Bits) - 1
		}
		nbad := 0
		held, heldCopy := "", ""
		check := func(v uint64) {
			v &= mask
			var got string
			o := lib.Guard(func() { got = t.Str(v) })
			c.Eval()
			// a string returned earlier must still read the same after later calls
			if held != heldCopy && nbad < 3 {
				c.Violation(nil, "%s: a string returned by String() changed after a later call: now %q, was %q", t.Name, held, heldCopy)
				nbad++
			}
			held, heldCopy = got, strings.Clone(got)
			if o.Panicked {
				if nbad < 3 {
					c.Violation(nil, "%s(%d).String() panicked: %s", t.Name, v, o.Panic)
				}
				nbad++
				return
			}
			if ns, ok := names[v]; ok {
				for _, n := range ns {
					if got == n {
						return
					}
				}
				if nbad < 3 {
					c.Violation(nil, "%s(%d).String() = %q, want one of %q", t.Name, v, got, ns)
				}
				nbad++
				return
			}
			var want string
			if t.Signed {
				sv := int64(v<<uint(64-t.Bits)) >> uint(64-t.Bits)
				want = fmt.Sprintf("%s(%d)", t.Name, sv)
			} else {
				want = fmt.Sprintf("%s(%d)", t.Name, v)
			}
			if got != want {
				if nbad < 3 {
					c.Violation(nil, "%s(%d).String() = %q, want %q", t.Name, v, got, want)
				}
				nbad++
			}
		}
		n := int64(0)
		if t.Bits <= 16 {
			for v := uint64(0); v <= mask; v++ {
				check(v)
				n++
			}
		} else {
			for v := range names {
				for d := uint64(0); d < 5; d++ {
					check(v + d - 2)
					n++
				}
			}
			for _, v := range []uint64{0, 1, mask, mask - 1, mask >> 1, mask>>1 + 1} {
				check(v)
				n++
			}
			// flag-like values: every single bit, every pair of bits, every complement of one bit,
			// and the OR / sum / difference of every pair of named values
			for i := 0; i < t.Bits; i++ {
				check(1 << uint(i))
				check(^(uint64(1) << uint(i)))
				n += 2
				for j := 0; j < i; j++ {
					check(1<<uint(i) | 1<<uint(j))
					n++
				}
			}
			vals := make([]uint64, 0, len(names))
			for v := range names {
				vals = append(vals, v)
			}
			sort.Slice(vals, func(a, b int) bool { return vals[a] < vals[b] })
			if len(vals) > 120 {
				vals = vals[:120]
			}
			for _, a := range vals {
				for _, b := range vals {
					check(a | b)
					check(a + b)
					check(a - b)
					n += 3
				}
			}
			rng := lib.NewRand("C20."+t.Name, 0)
			for i := 0; i < 200000; i++ {
				check(rng.U64())
				n++
			}
		}
		if nbad == 0 {
			c.NontrivialN(n)
		}
		c.Count(fmt.Sprintf("types_%dbit", t.Bits), 1)
	}
	_ = nconst
}

func c20Main(c *lib.Ctx) {
	if len(c20Types) == 0 {
		c.Inconclusive("the constant table was not generated (build without the c20table tag): run through ./run C20")
		return
	}
	nconst := 0
	for _, t := range c20Types {
		nconst += len(t.Consts)
	}
	c.Count("constants", int64(nconst))
	c.Count("types_in_table", int64(len(c20Types)))
	// Bool, reported separately.
	c.Count("constants_of_generated_types_declared_outside_types_go", int64(c20ConstsOutsideTypesGo))
	c.Res.Extra["bool_strings"] = map[string]string{"0": fit.Bool(0).String(), "1": fit.Bool(1).String(), "255": fit.Bool(255).String(), "7": fit.Bool(7).String()}
	c.Sample("constant", 1, map[string]interface{}{"type": c20Types[0].Name, "const": c20Types[0].Consts[0].Name, "value": c20Types[0].Consts[0].Value, "string": c20Types[0].Str(c20Types[0].Consts[0].Value)})
	c20Storms(c)
	if n, bad := c20Cross(func(m string) { c.Violation(nil, "%s", m) }); bad == 0 {
		c.EvalN(int64(n))
		c.NontrivialN(int64(n))
		c.Count("values_printed_across_all_types_in_rotation", int64(n))
	}
	c20OtherArch(c)
	c20Tables(c)
}

// c20Tables regenerates the string tables with the repository's own stringer.
func c20Tables(c *lib.Ctx) {
	repo := RepoDir()
	wd := filepath.Join(lib.OutDir(), "work", "C20")
	os.MkdirAll(wd, 0o755)
	checked, err := os.ReadFile(filepath.Join(repo, "types_string.go"))
	if err != nil {
		c.Inconclusive("cannot read types_string.go: %v", err)
		return
	}
	m := regexp.MustCompile(`(?m)^// fit types: \[([^\]]*)\]`).FindSubmatch(checked)
	if m == nil {
		c.Violation(nil, "types_string.go has no '// fit types:' header")
		return
	}
	header := strings.Fields(string(m[1]))
	var ours []string
	for _, t := range c20Types {
		ours = append(ours, t.Name)
	}
	if strings.Join(header, " ") != strings.Join(ours, " ") {
		c.Violation(nil, "the type list in the header of types_string.go differs from the types declared in types.go (%d vs %d types)", len(header), len(ours))
		return
	}
	bin := filepath.Join(wd, "fitgen")
	cmd := exec.Command("go", "build", "-tags", "verif", "-o", bin, "./cmd/fitgen")
	cmd.Dir = repo
	if out, err := cmd.CombinedOutput(); err != nil {
		c.Inconclusive("cannot build the verif-tagged fitgen: %v: %s", err, tail(out, 400))
		return
	}
	// The regeneration is repeated under several GOMAXPROCS values (default, 1, 3, 6, 7, 12): what
	// the stringer writes must not depend on how many Ps it finds.
	procs := []string{"", "1", "3", "6", "7", "12", "386"}
	// ... and once with a fitgen built for a 32-bit platform (GOARCH=386): what the generator
	// writes must not depend on the word size of the machine that runs it
	bin386 := filepath.Join(wd, "fitgen386")
	b386 := exec.Command("go", "build", "-tags", "verif", "-o", bin386, "./cmd/fitgen")
	b386.Dir = repo
	b386.Env = append(os.Environ(), "GOARCH=386")
	have386 := false
	if _, err := b386.CombinedOutput(); err == nil {
		have386 = true
		if e := exec.Command(bin386, "-h").Run(); e != nil {
			if _, isExit := e.(*exec.ExitError); !isExit {
				have386 = false // the host cannot execute the binary
			}
		}
	} else {
		c.Count("fitgen_386_build_failed", 1)
	}
	if !have386 {
		procs = procs[:len(procs)-1]
		c.Count("fitgen_386_regeneration_not_possible_on_this_host", 1)
	}
	type regen struct {
		gen []byte
		msg string
	}
	res := make([]regen, len(procs))
	var wg sync.WaitGroup
	for k, p := range procs {
		wg.Add(1)
		go func(k int, p string) {
			defer wg.Done()
			outFile := filepath.Join(wd, fmt.Sprintf("types_string_%d.go", k))
			run := exec.Command(bin)
			if p == "386" {
				run = exec.Command(bin386)
			}
			run.Dir = repo
			run.Env = append(os.Environ(), "FITGEN_VERIF_STRINGER="+filepath.Join(repo, "types.go")+"|"+outFile+"|"+strings.Join(ours, ","))
			if p != "" && p != "386" {
				run.Env = append(run.Env, "GOMAXPROCS="+p)
			}
			if out, err := run.CombinedOutput(); err != nil {
				res[k].msg = fmt.Sprintf("the repository's stringer failed on the checked-in types.go (GOMAXPROCS=%q): %v: %s", p, err, tail(out, 400))
				return
			}
			gen, err := os.ReadFile(outFile)
			if err != nil {
				res[k].msg = fmt.Sprintf("stringer wrote no output: %v", err)
				return
			}
			res[k].gen = gen
		}(k, p)
	}
	wg.Wait()
	var gen []byte
	for k, r := range res {
		c.Eval()
		if r.msg != "" {
			c.Violation(nil, "%s", r.msg)
			return
		}
		gen = r.gen
		if !bytes.Equal(gen, checked) {
			line := 1
			for i := 0; i < len(gen) && i < len(checked); i++ {
				if gen[i] != checked[i] {
					break
				}
				if gen[i] == '\n' {
					line++
				}
			}
			c.Violation(nil, "types_string.go is not what the repository's stringer generates from types.go with GOMAXPROCS=%q (386 stands for a fitgen built with GOARCH=386) (first difference at line %d; generated %d bytes, checked in %d bytes)", procs[k], line, len(gen), len(checked))
			return
		}
		c.Count("string_table_regenerations_identical", 1)
	}
	c.NontrivialN(1)
	c.Count("string_table_bytes_compared", int64(len(gen)))
	// The stringer as the fitgen command itself drives it: a complete run of the command on a
	// bundled workbook writes types.go and types_string.go; the stringer step alone (the hook),
	// run on that same types.go, must write the same bytes. What the command does around the
	// stringer (logging, flags, the order of its steps) is not part of the tables.
	for _, ver := range []string{"21.40", "20.43"} {
		xlsx := filepath.Join(repo, "cmd/fitgen/internal/profile/testdata", ver+".xlsx")
		if _, err := os.Stat(xlsx); err != nil {
			continue
		}
		out := filepath.Join(wd, "full-"+ver)
		os.RemoveAll(out)
		os.MkdirAll(out, 0o755)
		full := exec.Command(bin, "-sdk", ver, xlsx, out)
		if ver == "20.43" {
			// this one with the command's debugging output switched on
			full = exec.Command(bin, "-verbose", "-sdk", ver, xlsx, out)
		}
		full.Dir = wd
		if b, err := full.CombinedOutput(); err != nil {
			c.Violation(nil, "a complete fitgen run on the bundled %s workbook failed: %v: %s", ver, err, tail(b, 400))
			return
		}
		fullStr, err := os.ReadFile(filepath.Join(out, "types_string.go"))
		if err != nil {
			c.Violation(nil, "a complete fitgen run on the %s workbook wrote no types_string.go", ver)
			return
		}
		hm := regexp.MustCompile(`(?m)^// fit types: \[([^\]]*)\]`).FindSubmatch(fullStr)
		if hm == nil {
			c.Violation(nil, "types_string.go of a complete fitgen run (%s) has no '// fit types:' header", ver)
			return
		}
		alone := filepath.Join(out, "stringer-alone.go.txt")
		hook := exec.Command(bin)
		hook.Dir = out
		hook.Env = append(os.Environ(), "FITGEN_VERIF_STRINGER="+filepath.Join(out, "types.go")+"|"+alone+"|"+strings.Join(strings.Fields(string(hm[1])), ","))
		if b, err := hook.CombinedOutput(); err != nil {
			c.Violation(nil, "the repository's stringer failed on the types.go of a complete fitgen run (%s): %v: %s", ver, err, tail(b, 400))
			return
		}
		aloneStr, _ := os.ReadFile(alone)
		c.Eval()
		if !bytes.Equal(aloneStr, fullStr) {
			line := 1
			for i := 0; i < len(aloneStr) && i < len(fullStr); i++ {
				if aloneStr[i] != fullStr[i] {
					break
				}
				if aloneStr[i] == '\n' {
					line++
				}
			}
			c.Violation(nil, "workbook %s: the types_string.go a complete fitgen run writes differs from what the repository's stringer generates from that run's types.go (first difference at line %d; %d vs %d bytes)", ver, line, len(fullStr), len(aloneStr))
			return
		}
		c.Count("complete_fitgen_runs_whose_string_tables_equal_the_stringer_alone", 1)
		// round 13: the same command once more into the same directory, which now holds the
		// outputs of the first run - except that types_string.go is an outdated table: same
		// header, same type list, names of an older profile, and (as after a checkout or an
		// unpacked archive) a modification time later than that of types.go. The run reports
		// success, so the directory must again hold the tables that belong to its types.go.
		// (only names inside the tables change: no type is called ...Invalid..., so the header
		// line with the type list and all code stay as they were)
		stale := bytes.Replace(fullStr, []byte("Invalid"), []byte("Unvalid"), -1)
		if !bytes.Equal(stale, fullStr) && os.WriteFile(filepath.Join(out, "types_string.go"), stale, 0o644) == nil {
			later := time.Now().Add(time.Hour)
			os.Chtimes(filepath.Join(out, "types_string.go"), later, later)
			again := exec.Command(bin, full.Args[1:]...)
			again.Dir = wd
			if b, err := again.CombinedOutput(); err != nil {
				c.Violation(nil, "a second complete fitgen run into the directory of the first (%s workbook) failed: %v: %s", ver, err, tail(b, 400))
				return
			}
			c.Eval()
			second, _ := os.ReadFile(filepath.Join(out, "types_string.go"))
			if !bytes.Equal(second, fullStr) {
				what := "differs from both the outdated file and the tables of its types.go"
				if bytes.Equal(second, stale) {
					what = "is still the outdated file that was there before the run"
				}
				c.Violation(nil, "workbook %s: fitgen run again into a directory holding an outdated types_string.go (same type list, later modification time) reports success, but types_string.go %s", ver, what)
				return
			}
			c.Count("complete_fitgen_reruns_over_an_outdated_string_table", 1)
		}
		os.RemoveAll(out)
	}
}

func tail(b []byte, n int) string {
	if len(b) > n {
		b = b[len(b)-n:]
	}
	return string(b)
}

// c20Storm lets g goroutines make the first String() calls of type t in this process at the same
// moment (spin barrier) and compares every result.
func c20Storm(t c20Type, g int) (int, string) {
	names := map[uint64][]string{}
	for _, k := range t.Consts {
		names[k.Value] = append(names[k.Value], strings.TrimPrefix(k.Name, t.Name))
	}
	var wg sync.WaitGroup
	var ready, goFlag, bad int32
	var firstBad atomic.Value
	firstBad.Store("")
	for i := 0; i < g; i++ {
		wg.Add(1)
		go func(i int) {
			defer wg.Done()
			rng := lib.NewRand("C20.storm."+t.Name, uint64(i))
			order := rng.Perm(len(t.Consts))
			atomic.AddInt32(&ready, 1)
			for atomic.LoadInt32(&goFlag) == 0 {
			}
			for _, k := range order {
				v := t.Consts[k].Value
				got := t.Str(v)
				ok := false
				for _, n := range names[v] {
					if got == n {
						ok = true
					}
				}
				if !ok {
					atomic.AddInt32(&bad, 1)
					firstBad.Store(fmt.Sprintf("%s(%d).String() = %q under concurrent first use, want one of %q", t.Name, v, got, names[v]))
				}
			}
		}(i)
	}
	for atomic.LoadInt32(&ready) < int32(g) {
		runtime.Gosched()
	}
	atomic.StoreInt32(&goFlag, 1)
	wg.Wait()
	return int(bad), firstBad.Load().(string)
}

// C20Sub: "storm <type index>": one fresh process whose very first String() calls of the type come
// from 12 goroutines at once. Prints OK or BAD <message>; a fatal runtime error kills it.
func C20Sub(args []string) int {
	if len(args) >= 1 && args[0] == "values" {
		return c20Values()
	}
	if len(args) < 2 || args[0] != "storm" {
		return 2
	}
	idx, _ := strconv.Atoi(args[1])
	if idx < 0 || idx >= len(c20Types) {
		fmt.Println("BAD no such type")
		return 0
	}
	bad, msg := c20Storm(c20Types[idx], 12)
	if bad > 0 {
		fmt.Printf("BAD %s (%d wrong results)\n", msg, bad)
		return 0
	}
	fmt.Println("OK")
	return 0
}

// c20Storms runs the first-use storm of every type in fresh processes.
func c20Storms(c *lib.Ctx) {
	self, _ := os.Executable()
	reps := int(tierN(c.Tier, 2, 12))
	type job struct{ ti, rep int }
	var mu sync.Mutex
	var wg sync.WaitGroup
	sem := make(chan struct{}, 8)
	for ti := range c20Types {
		r := reps
		if len(c20Types[ti].Consts) >= 100 {
			r = reps * 4 // big tables are the ones built lazily or as maps
		}
		for k := 0; k < r; k++ {
			wg.Add(1)
			sem <- struct{}{}
			go func(ti int) {
				defer wg.Done()
				defer func() { <-sem }()
				cmd := exec.Command(self, "c20", "storm", strconv.Itoa(ti))
				cmd.Env = append(os.Environ(), "GOMAXPROCS=8")
				out, err := cmd.CombinedOutput()
				mu.Lock()
				defer mu.Unlock()
				c.Eval()
				s := strings.TrimSpace(string(out))
				switch {
				case err != nil || !(s == "OK" || strings.HasPrefix(s, "BAD")):
					c.Violation([]byte(c20Types[ti].Name), "a process whose first %s.String() calls come from 12 goroutines at once died: %v: %s", c20Types[ti].Name, err, tail(out, 300))
				case strings.HasPrefix(s, "BAD"):
					c.Violation([]byte(c20Types[ti].Name), "%s", strings.TrimPrefix(s, "BAD "))
				default:
					c.Count("fresh_process_first_use_storms", 1)
				}
			}(ti)
		}
	}
	wg.Wait()
}

// c20Cross prints the same number through every generated type in rotation (value-major order: the
// calls for one number are adjacent and differ only in the type), sequentially and then from four
// goroutines that each walk the types in a different rotation. What one type printed for a number
// must not leak into what the next type prints for it. report is called for at most 20 mismatches.
func c20Cross(report func(string)) (checked, bad int) {
	type tinfo struct {
		t     c20Type
		names map[uint64][]string
		mask  uint64
	}
	var ts []tinfo
	for _, t := range c20Types {
		names := map[uint64][]string{}
		for _, k := range t.Consts {
			names[k.Value] = append(names[k.Value], strings.TrimPrefix(k.Name, t.Name))
		}
		mask := ^uint64(0)
		if t.Bits < 64 {
			mask = 1<<uint(t.Bits) - 1
		}
		ts = append(ts, tinfo{t, names, mask})
	}
	judge := func(ti tinfo, v uint64) string {
		t := ti.t
		v &= ti.mask
		got := t.Str(v)
		if ns, ok := ti.names[v]; ok {
			for _, n := range ns {
				if got == n {
					return ""
				}
			}
			return fmt.Sprintf("%s(%d).String() = %q right after other types printed the same number, want one of %q", t.Name, v, got, ns)
		}
		want := fmt.Sprintf("%s(%d)", t.Name, v)
		if t.Signed {
			want = fmt.Sprintf("%s(%d)", t.Name, int64(v<<uint(64-t.Bits))>>uint(64-t.Bits))
		}
		if got != want {
			return fmt.Sprintf("%s(%d).String() = %q right after other types printed the same number, want %q", t.Name, v, got, want)
		}
		return ""
	}
	var vals []uint64
	for v := uint64(0); v < 300; v++ {
		vals = append(vals, v)
	}
	rng := lib.NewRand("C20.cross", 0)
	for i := 0; i < 200; i++ {
		vals = append(vals, rng.U64()>>uint(rng.Intn(64)))
	}
	vals = append(vals, 0xFFFF, 0xFFFE, 0x7FFF, 0x8000, 0xFFFFFFFF, 0xFFFFFFFE, 0x7FFFFFFF, 0x80000000, 65534, 1000, 10000)
	var mu sync.Mutex
	note := func(m string) {
		mu.Lock()
		defer mu.Unlock()
		bad++
		if bad <= 20 {
			report(m)
		}
	}
	for _, v := range vals {
		for _, ti := range ts {
			checked++
			if m := judge(ti, v); m != "" {
				note(m)
			}
		}
	}
	var wg sync.WaitGroup
	for g := 0; g < 4; g++ {
		wg.Add(1)
		go func(g int) {
			defer wg.Done()
			for _, v := range vals {
				for k := range ts {
					if m := judge(ts[(k*(2*g+1)+g*17)%len(ts)], v); m != "" {
						note(m)
					}
				}
			}
		}(g)
	}
	wg.Wait()
	checked += 4 * len(vals) * len(ts)
	return checked, bad
}

// c20Values is the body of the cross-architecture run (the binary built with GOARCH=386, where int
// is 32 bits wide): every constant of every type, and for every type boundary values, neighbours of
// constants and PRNG values, printed and compared. Prints one BAD line per mismatch (at most 20),
// then "DONE <checked>".
func c20Values() int {
	bad, checked := 0, 0
	for _, t := range c20Types {
		names := map[uint64][]string{}
		for _, k := range t.Consts {
			names[k.Value] = append(names[k.Value], strings.TrimPrefix(k.Name, t.Name))
		}
		mask := ^uint64(0)
		if t.Bits < 64 {
			mask = 1<<uint(t.Bits) - 1
		}
		check := func(v uint64) {
			v &= mask
			got := t.Str(v)
			checked++
			if ns, ok := names[v]; ok {
				for _, n := range ns {
					if got == n {
						return
					}
				}
			} else {
				want := fmt.Sprintf("%s(%d)", t.Name, v)
				if t.Signed {
					want = fmt.Sprintf("%s(%d)", t.Name, int64(v<<uint(64-t.Bits))>>uint(64-t.Bits))
				}
				if got == want {
					return
				}
			}
			bad++
			if bad <= 20 {
				fmt.Printf("BAD %s(%d).String() = %q\n", t.Name, v, got)
			}
		}
		for v := range names {
			for d := uint64(0); d < 5; d++ {
				check(v + d - 2)
			}
		}
		for _, v := range []uint64{0, 1, 2, mask, mask - 1, mask >> 1, mask>>1 + 1, mask>>1 + 2, mask>>1 - 1, 3000000000, 4000000000, 2147483648, 2147483647} {
			check(v)
		}
		rng := lib.NewRand("C20.values."+t.Name, 0)
		n := 2000
		if t.Bits >= 32 {
			n = 40000
		}
		for i := 0; i < n; i++ {
			check(rng.U64())
		}
	}
	n, _ := c20Cross(func(m string) { fmt.Printf("BAD %s\n", m) })
	checked += n
	fmt.Printf("DONE %d\n", checked)
	return 0
}

// c20OtherArch runs the value checks in a binary built for a 32-bit architecture, if ./run built one.
func c20OtherArch(c *lib.Ctx) {
	bin := os.Getenv("VERIF_VCHECK386")
	if bin == "" {
		c.Res.Extra["goarch_386_run"] = "not built (run through ./run C20)"
		return
	}
	out, err := exec.Command(bin, "c20", "values").CombinedOutput()
	text := string(out)
	if err != nil || !strings.Contains(text, "DONE ") {
		// cannot execute 386 binaries here, or the process died
		if strings.Contains(text, "BAD ") {
			c.Violation(nil, "GOARCH=386 run of the String() checks: %s", tail(out, 600))
			return
		}
		c.Res.Extra["goarch_386_run"] = "could not run: " + fmt.Sprint(err) + " " + tail(out, 200)
		return
	}
	for _, l := range strings.Split(text, "\n") {
		if strings.HasPrefix(l, "BAD ") {
			c.Violation(nil, "on a platform with 32-bit int (GOARCH=386): %s", strings.TrimPrefix(l, "BAD "))
		}
		if strings.HasPrefix(l, "DONE ") {
			n, _ := strconv.Atoi(strings.TrimPrefix(l, "DONE "))
			c.EvalN(int64(n))
			c.NontrivialN(int64(n))
			c.Count("values_checked_under_GOARCH_386", int64(n))
			c.Res.Extra["goarch_386_run"] = "ok"
		}
	}
}
