package checks

import (
	"bufio"
	"bytes"
	"fmt"
	"io"
	"os"
	"path/filepath"
	"strings"
	"sync"

	"github.com/tormoder/fit"

	"verifharness/lib"
	"verifharness/ref"
)

func init() { registrars = append(registrars, registerC10) }

func registerC10() {
	lib.Register(&lib.Check{
		ID:    "C10",
		Level: "exploration",
		Rule: "family frames: every intact device frame and PRNG model files (record areas of 0-3 bytes after file_id up to sizes straddling 4096 and 8192) are served by a " +
			"counting reader whose backing store is frame || 64 poison bytes || another valid file, under 14 chunkers (1 byte, odd sizes, 4095/4096/4097/5000, PRNG sizes, " +
			"greedy readers that always fill the buffer, final chunk with io.EOF, occasional (0,nil), yields); for each of the six entry points: bytes delivered <= frame " +
			"length, == header+data+2 after a successful Decode/CheckIntegrity, result equal to the whole-buffer result; the same frames also through bufio readers (16 and 4096 bytes), bytes.Buffer, strings.Reader behind io.LimitReader, io.MultiReader a reader offering ReadByte/UnreadByte/Seek/ReadAt/WriteTo/Len with short reads, and *os.File (a regular file on disk, and a pipe); family huge-frames: frames of 6, 9 and 17 MiB followed by poison bytes and another file, same consumption rules; family chains: concatenations of 1-5 files in PRNG " +
			"order: DecodeChained returns one File per input equal to the solo decode, DecodeHeader / DecodeHeaderAndFileID report Decode's header and file_id. each chain is also decoded from a seekable reader (bytes.Reader, strings.Reader, io.SectionReader, *os.File) that holds other bytes in front and is handed over positioned at the start of one of the members, and from a reader that ends the stream with an error value wrapping io.EOF (three kinds): same Files, no error. A case is one " +
			"(file, chunker) pair or one chain; family announced-sizes: a valid header (12 or 14 bytes, header CRC right or zero) announcing a data size near 2^32, 2^31, 2^24, 2^16 or a PRNG value, followed by far fewer bytes than announced (nothing, two bytes, a whole valid record area with its CRC, the 14-byte header's own checksum continued to zero): a call that returns success must have consumed header+announced+2 bytes, which the store does not hold, so every call must fail, and none may panic; non-trivial: the call succeeded and consumption was measured; distinct by (input digest, chunker)",
		Assume:        []string{"record.distance of records whose compressed_speed_distance expands is excluded from solo-vs-chained comparison (known finding F5, decided in C18)"},
		MinNontrivial: 300,
		Families: []lib.Family{
			{Name: "frames", N: func(t string) uint64 { return tierN(t, 120*14, 2400*14) }, Run: c10Frame},
			{Name: "huge-frames", N: func(t string) uint64 { return 3 }, Run: c10Huge},
			{Name: "chains", N: func(t string) uint64 { return tierN(t, 300, 6000) }, Run: c10Chain},
			{Name: "announced-sizes", N: func(t string) uint64 { return tierN(t, 400, 8000) }, Run: c10Announced},
		},
	})
}

// framePool returns input idx of the frames pool: intact device frames first, then model files.
var (
	intactOnce  sync.Once
	intact      [][]byte
	intactNames []string
	poolCache   = map[uint64][]byte{}
	poolLabel   = map[uint64]string{}
)

func framePool(idx uint64) (frame []byte, label string) {
	intactOnce.Do(func() {
		for _, cf := range Corpus() {
			if p, err := ref.Parse(cf.Data, ref.ParseOptions{}); err == nil {
				intact = append(intact, cf.Data[:p.FrameLen])
				intactNames = append(intactNames, cf.Path)
			}
		}
	})
	names := intactNames
	if b, ok := poolCache[idx]; ok {
		return b, poolLabel[idx]
	}
	defer func() { poolCache[idx], poolLabel[idx] = frame, label }()
	if idx < uint64(len(intact)) {
		return intact[idx], names[idx]
	}
	k := idx - uint64(len(intact))
	rng := lib.NewRand("C10.pool", k)
	ft := lib.FileTypes[k%uint64(len(lib.FileTypes))].Type
	o := lib.GenOpts{FileType: ft, Mesgs: lib.HostedMesgs(ft), Locals: 1 + rng.Intn(3), Redefine: 5, BigEndian: 50, Unknown: 20, Compressed: 10, NoTimeZero: true, MaxFields: 6, BigFileId: 15}
	if k%11 == 7 {
		// a well-formed frame whose file_id names a type without a container (manufacturer
		// specific, unassigned, invalid): the decoding entry points refuse it - and what they
		// read while doing so stays inside the frame like everything else
		o.FileType = []byte{0xF7, 0xFE, 0, 100, 255, 0xF8, 0xFB}[k/11%7]
		o.Mesgs = []uint16{20, 19, 18, 21, 23}
	}
	switch k % 6 {
	case 0: // nothing after file_id
		o.Records = 0
		g := lib.NewPlanGen(rng, o)
		return g.P.Bytes(), fmt.Sprintf("model#%d(empty)", k)
	case 1:
		o.Records = 1
	case 2:
		o.Records = 5 + rng.Intn(30)
	case 3:
		o.Records = 150 + rng.Intn(100) // around 4096
	case 4:
		o.Records = 300 + rng.Intn(200) // around 8192
	default:
		o.Records = 20 + rng.Intn(400)
	}
	g := lib.NewPlanGen(rng, o)
	p := g.Fill()
	b := p.Bytes()
	if k%12 == 9 || k%12 == 10 {
		// record area of exactly a multiple of the read buffer
		if lib.PadPlanToDataSize(p, rng, 4096*(1+int(k/12)%3)) {
			b = p.Bytes()
			return b, fmt.Sprintf("model#%d(data size %d)", k, len(b)-int(b[0])-2)
		}
	}
	if k%6 == 3 || k%6 == 4 {
		// Trim or extend with records so that the frame length lands near a buffer boundary.
		target := 4096 * int(k%6-2)
		delta := []int{-2, -1, 0, 1, 2, 3, 13}[rng.Intn(7)]
		for len(b) < target+delta+200 {
			g.Data(g.P.Records[0].Local)
			b = g.P.Bytes()
		}
	}
	return b, fmt.Sprintf("model#%d(%d bytes)", k, len(b))
}

var poison = bytes.Repeat([]byte{0xEE}, 64)

func distanceSkip(f *fit.File) func(slot string, g uint16, idx int, si int) bool {
	prof := lib.Profile()
	dist := prof.Field(ref.MesgRecord, 5)
	csd := prof.Field(ref.MesgRecord, 8)
	ct := lib.FileContent(f)
	exp := map[int]bool{}
	if ct != nil && csd != nil {
		for _, s := range ct.Slots {
			if s.Name == "Records" && s.Global == ref.MesgRecord {
				for j, m := range s.Msgs {
					if v := m[csd.Sindex]; v.K == 'a' && len(v.A) == 3 {
						exp[j] = true
					}
				}
			}
		}
	}
	return func(slot string, g uint16, idx int, si int) bool {
		return g == ref.MesgRecord && slot == "Records" && dist != nil && si == dist.Sindex && exp[idx]
	}
}

// hugePlan builds a well-formed activity file of about mib MiB: records of an unknown message
// with 255 fields of 255 bytes (65 KB each, skipped by the decoder) with a known record message
// after every tenth of them; extra adds that many small records at the end.
func hugePlan(rng *lib.Rand, mib int, extra int) *ref.Plan {
	plan := &ref.Plan{HeaderSize: 14, Proto: 0x20, ProfVer: 2115}
	plan.Records = append(plan.Records,
		ref.Record{IsDef: true, Local: 0, Global: 0, Fields: []ref.FieldDef{{Num: 0, Size: 1, Base: 0}}},
		ref.Record{Local: 0, Data: [][]byte{{4}}})
	big := ref.Record{IsDef: true, Local: 1, Global: 0xFF00}
	for k := 0; k < 255; k++ {
		big.Fields = append(big.Fields, ref.FieldDef{Num: byte(k), Size: 255, Base: 0x0D})
	}
	plan.Records = append(plan.Records, big,
		ref.Record{IsDef: true, Local: 2, Global: 20, Fields: []ref.FieldDef{{Num: 253, Size: 4, Base: 0x86}, {Num: 3, Size: 1, Base: 0x02}}})
	blob := rng.Bytes(255)
	n := mib << 20 / (255*255 + 1)
	for k := 0; k <= n; k++ {
		data := make([][]byte, 255)
		for i := range data {
			data[i] = blob
		}
		plan.Records = append(plan.Records, ref.Record{Local: 1, Data: data})
		if k%10 == 9 {
			ts := make([]byte, 4)
			ref.Put(ts, uint64(0x30000000+k), 4, 0)
			plan.Records = append(plan.Records, ref.Record{Local: 2, Data: [][]byte{ts, {byte(60 + k%100)}}})
		}
	}
	for k := 0; k < extra; k++ {
		ts := make([]byte, 4)
		ref.Put(ts, uint64(0x31000000+k), 4, 0)
		plan.Records = append(plan.Records, ref.Record{Local: 2, Data: [][]byte{ts, {byte(k)}}})
	}
	return plan
}

// c10Huge: frames of several MiB (6, 9 and 17 MiB, sizes that are no multiple of any power-of-two
// block) followed by poison bytes and another file: no entry point reads past the frame, and a
// successful Decode / CheckIntegrity consumes exactly the frame.
func c10Huge(c *lib.Ctx, idx uint64) {
	rng := lib.NewRand("C10.huge", idx)
	frame := hugePlan(rng, []int{6, 9, 17}[idx], 3+int(idx)).Bytes()
	other, _ := framePool(31)
	store := append(append(append([]byte{}, frame...), poison...), other...)
	c.SetInflight(frame[:4096])
	for ci, ch := range []lib.Chunker{{Kind: "whole"}, {Kind: "fixed", Size: 65536}, {Kind: "greedy", EOFWithData: true}, {Kind: "fixed", Size: 4097}} {
		for _, ep := range lib.EntryPoints {
			if ep == "DecodeChained" || ci == 3 && ep != "CheckIntegrity" {
				continue
			}
			r := &lib.Reader{Data: store, Limit: len(store), Ch: ch}
			var res lib.CallResult
			o := lib.Guard(func() { res = lib.Call(ep, r) })
			c.Eval()
			if o.Panicked || o.Hang {
				c.Violation(frame[:4096], "%s with chunker %s panicked/hung on a frame of %d bytes: %s", ep, ch, len(frame), o.Panic)
				return
			}
			if r.Pos > len(frame) {
				c.Violation(frame[:4096], "%s with chunker %s consumed %d bytes, %d past the end of a frame of %d bytes", ep, ch, r.Pos, r.Pos-len(frame), len(frame))
				return
			}
			if ep == "Decode" || ep == "CheckIntegrity" {
				if res.Err != nil {
					c.Violation(frame[:4096], "%s with chunker %s rejects a well-formed file of %d bytes: %v", ep, ch, len(frame), res.Err)
					return
				}
				if r.Pos != len(frame) {
					c.Violation(frame[:4096], "%s with chunker %s succeeded but consumed %d bytes of a frame of %d", ep, ch, r.Pos, len(frame))
					return
				}
			}
		}
	}
	c.Count("huge_frame_bytes", int64(len(frame)))
	c.Nontrivial(frame[:4096], []byte{byte(idx)})
}

// c10Announced: see the rule text. The announced size never fits what follows the header.
func c10Announced(c *lib.Ctx, idx uint64) {
	rng := lib.NewRand("C10.announced", idx)
	frame, _ := framePool(idx % 60)
	hs := int(frame[0])
	if hs != 12 && hs != 14 || len(frame) < hs+2 {
		return
	}
	sizes := []uint64{0xFFFFFFFF, 0xFFFFFFFE, 0xFFFFFFFD, 0xFFFFFFFC, 0xFFFFFFF0, 0xFFFF0000, 0x80000000, 0x7FFFFFFF, 0x7FFFFFFE, 0x7FFFFFFD, 0x80000001, 0x01000000, 0x00FFFFFE, 0x00010000 + uint64(len(frame))}
	d := sizes[idx/60%uint64(len(sizes))]
	if idx/60 >= uint64(len(sizes)) {
		d = uint64(len(frame)) + 1 + rng.U64()%(1<<32-uint64(len(frame))-1)
	}
	hdr := append([]byte{}, frame[:hs]...)
	hdr[4], hdr[5], hdr[6], hdr[7] = byte(d), byte(d>>8), byte(d>>16), byte(d>>24)
	if hs == 14 {
		crc := ref.CRC(hdr[:12])
		if rng.Chance(1, 5) {
			crc = 0
		}
		hdr[12], hdr[13] = byte(crc), byte(crc>>8)
	}
	var body []byte
	switch rng.Intn(5) {
	case 0:
	case 1:
		body = []byte{0, 0}
	case 2:
		body = append(body, frame[hs:]...) // the whole record area and its CRC
	case 3:
		// two bytes that bring the running checksum of everything so far to zero
		crc := ref.CRC(hdr)
		body = []byte{byte(crc), byte(crc >> 8)}
	case 4:
		body = append(append(body, frame[hs:len(frame)-2]...), 0, 0)
		crc := ref.CRC(append(append([]byte{}, hdr...), body[:len(body)-2]...))
		body[len(body)-2], body[len(body)-1] = byte(crc), byte(crc>>8)
	}
	store := append(hdr, body...)
	c.SetInflight(store)
	want := uint64(hs) + d + 2
	for _, ep := range []string{"Decode", "CheckIntegrity", "DecodeChained"} {
		r := &lib.Reader{Data: store, Limit: len(store), Ch: lib.Chunkers(rng)[rng.Intn(14)]}
		var res lib.CallResult
		o := lib.Guard(func() { res = lib.Call(ep, r) })
		c.Eval()
		if o.Panicked || o.Hang {
			c.Violation(store, "%s panicked/hung on a header that announces %d data bytes followed by %d bytes: %s", ep, d, len(body), o.Panic)
			return
		}
		if res.Err == nil {
			c.Violation(store, "%s succeeded on a header that announces %d data bytes: a success consumes %d bytes, the reader only had %d (consumed %d)", ep, d, want, len(store), r.Pos)
			return
		}
	}
	c.Count("announced_size_cases", 1)
	c.Nontrivial(store)
}

func c10Frame(c *lib.Ctx, idx uint64) {
	pool := idx / 14
	chi := int(idx % 14)
	frame, label := framePool(pool)
	rng := lib.NewRand("C10.frames", idx)
	other, _ := framePool(30 + (pool*7+3)%40)
	store := append(append(append([]byte{}, frame...), poison...), other...)
	ch := lib.Chunkers(rng)[chi]
	c.SetInflight(frame)
	// Whole-buffer baseline on the frame alone.
	base := map[string]lib.CallResult{}
	for _, ep := range lib.EntryPoints {
		if ep == "DecodeChained" {
			continue
		}
		var res lib.CallResult
		o := lib.Guard(func() { res = lib.Call(ep, bytes.NewReader(frame)) })
		if o.Panicked || o.Hang {
			c.Violation(frame, "%s panicked on %s: %s", ep, label, o.Panic)
			return
		}
		base[ep] = res
	}
	hs := int(frame[0])
	okCases := 0
	for _, ep := range lib.EntryPoints {
		if ep == "DecodeChained" {
			continue
		}
		r := &lib.Reader{Data: store, Limit: len(store), Ch: ch}
		var res lib.CallResult
		o := lib.Guard(func() { res = lib.Call(ep, r) })
		c.Eval()
		if o.Panicked || o.Hang {
			c.Violation(frame, "%s with chunker %s panicked/hung on %s: %s", ep, ch, label, o.Panic)
			return
		}
		if r.Pos > len(frame) {
			c.Violation(frame, "%s with chunker %s consumed %d bytes of %s, %d past the end of the frame (%d bytes)", ep, ch, r.Pos, label, r.Pos-len(frame), len(frame))
			return
		}
		b := base[ep]
		if lib.ErrText(res.Err) != lib.ErrText(b.Err) {
			c.Violation(frame, "%s on %s: chunker %s gives error %q, whole buffer gives %q", ep, label, ch, lib.ErrText(res.Err), lib.ErrText(b.Err))
			return
		}
		if res.Err == nil {
			switch ep {
			case "Decode", "CheckIntegrity":
				if r.Pos != len(frame) {
					c.Violation(frame, "%s with chunker %s succeeded on %s but consumed %d bytes, frame is %d", ep, ch, label, r.Pos, len(frame))
					return
				}
			}
			okCases++
		}
		c.Count(fmt.Sprintf("consumed_%s_%s", ep, consumedClass(r.Pos, hs, len(frame))), 1)
		if ep == "Decode" && res.Err == nil {
			if diffs := lib.CompareContent(lib.FileContent(b.File), lib.FileContent(res.File), lib.CompareOpts{Header: true, Skip: distanceSkip(res.File)}); len(diffs) > 0 {
				c.Violation(frame, "Decode of %s depends on read chunking (%s): %s", label, ch, lib.DiffsString(diffs, 3))
				return
			}
		}
		if (ep == "DecodeHeader" || ep == "DecodeHeaderAndFileID") && res.Err != nil && base["Decode"].Err == nil {
			c.Violation(frame, "%s fails on %s (%v) although Decode accepts the file: it cannot report the header and file_id Decode reports", ep, label, res.Err)
			return
		}
		if (ep == "DecodeHeader" || ep == "DecodeHeaderAndFileID") && res.Err == nil && base["Decode"].Err == nil {
			df := base["Decode"].File
			if res.Header != df.Header {
				c.Violation(frame, "%s header %v differs from Decode's %v on %s", ep, res.Header, df.Header, label)
				return
			}
			if ep == "DecodeHeaderAndFileID" {
				if d := lib.CompareMsgs("fileid", "FileId", 0, 0, lib.MsgVals(reflectValue(df.FileId)), lib.MsgVals(reflectValue(res.FileId)), nil); len(d) > 0 {
					// Decode reports the last file_id of the stream, the short form the first.
					if !planHasSecondFileId(frame) {
						c.Violation(frame, "DecodeHeaderAndFileID file_id differs from Decode's on %s: %s", label, lib.DiffsString(d, 3))
						return
					}
				}
			}
		}
	}
	// The same frame through readers of other dynamic types: standard-library readers and a reader that
	// offers every optional interface (ReadByte, Seek, ReadAt, WriteTo, Len) while still short-reading.
	// Whatever fast path a decoder takes for such a type, the result must be the whole-buffer result.
	if chi < 8 {
		kinds := []string{"bufio16", "bufio4096", "bytes.Buffer", "strings.Reader+LimitReader", "MultiReader", "fancy", "*os.File (regular file)", "*os.File (pipe)"}
		kind := kinds[chi]
		for _, ep := range lib.EntryPoints {
			if ep == "DecodeChained" {
				continue
			}
			var rd io.Reader
			var fr *lib.FancyReader
			var cleanup func()
			switch kind {
			case "bufio16":
				rd = bufio.NewReaderSize(lib.NewReader(store, lib.Chunker{Kind: "rand", Size: 300, R: rng}), 16)
			case "bufio4096":
				rd = bufio.NewReader(lib.NewReader(store, lib.Chunker{Kind: "rand", Size: 5000, R: rng}))
			case "bytes.Buffer":
				rd = bytes.NewBuffer(append([]byte{}, store...))
			case "strings.Reader+LimitReader":
				rd = io.LimitReader(strings.NewReader(string(store)), int64(len(store)))
			case "MultiReader":
				k := len(frame) / 3
				rd = io.MultiReader(bytes.NewReader(store[:k]), bytes.NewReader(store[k:2*k+1]), bytes.NewReader(store[2*k+1:]))
			case "fancy":
				fr = lib.NewFancyReader(store, rng)
				rd = fr
			case "*os.File (regular file)":
				dir := filepath.Join(lib.OutDir(), "work", "C10-files")
				os.MkdirAll(dir, 0o755)
				p := filepath.Join(dir, fmt.Sprintf("frame-%d.fit", os.Getpid()))
				if os.WriteFile(p, store, 0o644) != nil {
					continue
				}
				fh, err := os.Open(p)
				if err != nil {
					continue
				}
				cleanup = func() { fh.Close(); os.Remove(p) }
				rd = fh
			default:
				// an *os.File that is not a regular file: Stat reports size 0, Seek fails
				pr, pw, err := os.Pipe()
				if err != nil {
					continue
				}
				go func() { pw.Write(store); pw.Close() }()
				cleanup = func() { pr.Close() }
				rd = pr
			}
			var res lib.CallResult
			o := lib.Guard(func() { res = lib.Call(ep, rd) })
			if cleanup != nil {
				cleanup()
				cleanup = nil
			}
			c.Eval()
			if o.Panicked || o.Hang {
				c.Violation(frame, "%s through a %s reader panicked/hung on %s: %s", ep, kind, label, o.Panic)
				return
			}
			b := base[ep]
			if lib.ErrText(res.Err) != lib.ErrText(b.Err) {
				c.Violation(frame, "%s on %s: through a %s reader the error is %q, through a plain reader %q", ep, label, kind, lib.ErrText(res.Err), lib.ErrText(b.Err))
				return
			}
			if fr != nil && fr.Pos() > len(frame) {
				c.Violation(frame, "%s through a reader offering ReadByte/Seek/ReadAt consumed %d bytes of %s, frame is %d", ep, fr.Pos(), label, len(frame))
				return
			}
			if ep == "Decode" && res.Err == nil {
				if diffs := lib.CompareContent(lib.FileContent(b.File), lib.FileContent(res.File), lib.CompareOpts{Header: true, Skip: distanceSkip(res.File)}); len(diffs) > 0 {
					c.Violation(frame, "Decode of %s depends on the reader's type (%s): %s", label, kind, lib.DiffsString(diffs, 3))
					return
				}
			}
		}
		c.Count("reader_kind_"+kind, 1)
	}
	if okCases > 0 {
		c.Nontrivial(frame, []byte(ch.String()))
	}
	c.Count("chunker_"+ch.String(), 1)
	c.Sample("frame", 2, map[string]interface{}{"input": label, "chunker": ch.String(), "frame_bytes": len(frame)})
}

func consumedClass(pos, hs, frame int) string {
	switch {
	case pos == frame:
		return "whole_frame"
	case pos == hs:
		return "header_only"
	case pos < hs:
		return "less_than_header"
	default:
		return "part_of_frame"
	}
}

func planHasSecondFileId(frame []byte) bool {
	p, err := ref.Parse(frame, ref.ParseOptions{})
	if err != nil {
		return true
	}
	n := 0
	for i, r := range p.Records {
		if !r.IsDef && p.DefOf[i] >= 0 && p.Records[p.DefOf[i]].Global == 0 {
			n++
		}
	}
	return n > 1
}

// c10LongChain: a chain of 70 000 small valid files (three distinct ones in turn): one File per
// input, each equal to decoding that file alone, however long the chain.
func c10LongChain(c *lib.Ctx) {
	var tiny [][]byte
	for k := uint64(0); k < 400 && len(tiny) < 3; k++ {
		f, _ := framePool(k)
		if len(f) > 0 && len(f) <= 120 {
			if _, err, _ := lib.GuardedDecode(f); err == nil {
				tiny = append(tiny, f)
			}
		}
	}
	if len(tiny) == 0 {
		c.Count("long_chain_skipped_no_small_file", 1)
		return
	}
	const n = 70000
	var chain []byte
	for i := 0; i < n; i++ {
		chain = append(chain, tiny[i%len(tiny)]...)
	}
	c.SetInflight(chain[:256])
	var files []*fit.File
	var err error
	o := lib.Guard(func() { files, err = fit.DecodeChained(bytes.NewReader(chain)) })
	c.Eval()
	if o.Panicked || o.Hang {
		c.Violation(chain[:256], "DecodeChained panicked/hung on a chain of %d small valid files: %s", n, o.Panic)
		return
	}
	if err != nil || len(files) != n {
		c.Violation(chain[:256], "DecodeChained over a chain of %d small valid files returned %d files, error %v", n, len(files), err)
		return
	}
	var solo []*lib.Content
	for _, t := range tiny {
		f, _, _ := lib.GuardedDecode(t)
		solo = append(solo, lib.FileContent(f))
	}
	for i, f := range files {
		if i%97 != 0 && i < n-300 && i > 300 && (i < 65400 || i > 65700) {
			continue // every 97th, both ends, and the neighbourhood of 2^16
		}
		if diffs := lib.CompareContent(solo[i%len(tiny)], lib.FileContent(f), lib.CompareOpts{Header: true}); len(diffs) > 0 {
			c.Violation(chain[:256], "file %d of a chain of %d decodes differently than alone: %s", i+1, n, lib.DiffsString(diffs, 3))
			return
		}
	}
	c.Count("long_chain_files", n)
}

func c10Chain(c *lib.Ctx, idx uint64) {
	if idx == 0 {
		c10LongChain(c)
	}
	rng := lib.NewRand("C10.chains", idx)
	k := 1 + rng.Intn(5)
	if rng.Chance(1, 6) {
		k = 6 + rng.Intn(6)
	}
	var parts [][]byte
	var chain []byte
	for i := 0; i < k; i++ {
		var f []byte
		for tries := 0; tries < 20; tries++ {
			f, _ = framePool(uint64(rng.Intn(100)))
			if len(f) < 60000 {
				break
			}
		}
		if _, err, _ := lib.GuardedDecode(f); err != nil {
			i--
			continue
		}
		parts = append(parts, f)
		chain = append(chain, f...)
	}
	c.SetInflight(chain)
	ch := lib.Chunkers(rng)[rng.Intn(14)]
	r := &lib.Reader{Data: chain, Limit: len(chain), Ch: ch}
	// half of the chains are decoded with the unknown-item options: each file must report what it reports alone
	var opts []fit.DecodeOption
	withOpts := rng.Chance(1, 2)
	if withOpts {
		opts = optionList(6, nil, idx)
		c.Count("chains_with_unknown_options", 1)
	}
	var files []*fit.File
	var err error
	o := lib.Guard(func() { files, err = fit.DecodeChained(r, opts...) })
	c.Eval()
	if o.Panicked || o.Hang {
		c.Violation(chain, "DecodeChained panicked/hung on a chain of %d valid files (chunker %s): %s", k, ch, o.Panic)
		return
	}
	if err != nil || len(files) != k {
		c.Violation(chain, "DecodeChained over %d valid files (chunker %s) returned %d files, error %v", k, ch, len(files), err)
		return
	}
	if r.Pos != len(chain) {
		c.Violation(chain, "DecodeChained consumed %d of %d bytes", r.Pos, len(chain))
		return
	}
	for i, part := range parts {
		solo, serr, so := lib.GuardedDecode(part, opts...)
		c.Eval()
		if so.Panicked || serr != nil {
			c.Violation(part, "solo Decode of chain member %d failed: %v %s", i, serr, so.Panic)
			return
		}
		if diffs := lib.CompareContent(lib.FileContent(solo), lib.FileContent(files[i]), lib.CompareOpts{Header: true, Unknown: true, Skip: distanceSkip(solo)}); len(diffs) > 0 {
			c.Violation(chain, "file %d of a chain of %d decodes differently than alone: %s", i+1, k, lib.DiffsString(diffs, 3))
			return
		}
	}
	// round 13: the same chain from a source that signals its end with an error value that wraps
	// io.EOF (a transport that annotates the end of the stream, `%w` style or a type with Unwrap,
	// with or without the last bytes in the same Read). The decoder's own test for the end of
	// input is errors.Is(err, io.EOF): the chain holds k valid files and nothing else, so the
	// answer is k Files and no error, as with a bare io.EOF.
	{
		var endErr error
		name := ""
		switch idx % 3 {
		case 0:
			endErr, name = fmt.Errorf("transport: stream closed: %w", io.EOF), "fmt.Errorf(%w, io.EOF)"
		case 1:
			endErr, name = &wrappedEnd{io.EOF}, "error type with Unwrap() = io.EOF"
		default:
			endErr, name = fmt.Errorf("layer 2: %w", fmt.Errorf("layer 1: %w", io.EOF)), "io.EOF wrapped twice"
		}
		wr := &lib.Reader{Data: chain, Limit: len(chain), Ch: ch, Fault: true, FaultErr: endErr}
		var wf []*fit.File
		var werr error
		ow := lib.Guard(func() { wf, werr = fit.DecodeChained(wr, opts...) })
		c.Eval()
		if ow.Panicked || ow.Hang {
			c.Violation(chain, "DecodeChained panicked/hung on a chain of %d valid files whose reader ends with %s: %s", k, name, ow.Panic)
			return
		}
		if werr != nil || len(wf) != k {
			c.Violation(chain, "DecodeChained over %d valid files (chunker %s) whose reader ends with %s (errors.Is(err, io.EOF) holds) returned %d files, error %v; with a bare io.EOF: %d files, no error", k, ch, name, len(wf), werr, k)
			return
		}
		for i := range wf {
			if diffs := lib.CompareContent(lib.FileContent(files[i]), lib.FileContent(wf[i]), lib.CompareOpts{Header: true, Unknown: true, Skip: distanceSkip(wf[i])}); len(diffs) > 0 {
				c.Violation(chain, "file %d of a chain decodes differently when the reader ends with %s: %s", i+1, name, lib.DiffsString(diffs, 3))
				return
			}
		}
		c.Count("chains_ending_with_a_wrapped_EOF", 1)
	}
	// The same chain behind something else in one seekable source (an envelope of other bytes,
	// an earlier member already consumed by a Decode call): the reader is handed over positioned
	// at the start of member m. A call starts where the reader stands; nothing in front of that
	// position is its business. Readers: bytes.Reader, strings.Reader, io.SectionReader, *os.File.
	{
		m := rng.Intn(k)
		env := rng.Bytes(1 + rng.Intn(300))
		if rng.Chance(1, 2) {
			env = append([]byte{}, parts[rng.Intn(k)]...) // a whole valid file in front
		}
		off := len(env)
		for i := 0; i < m; i++ {
			off += len(parts[i])
		}
		whole := append(append([]byte{}, env...), chain...)
		kind := int(idx) % 4
		var rd io.ReadSeeker
		var cleanup func()
		name := ""
		switch kind {
		case 0:
			rd, name = bytes.NewReader(whole), "bytes.Reader"
		case 1:
			rd, name = strings.NewReader(string(whole)), "strings.Reader"
		case 2:
			rd, name = io.NewSectionReader(bytes.NewReader(whole), 0, int64(len(whole))), "io.SectionReader"
		default:
			name = "*os.File"
			dir := filepath.Join(lib.OutDir(), "work", "C10-files")
			os.MkdirAll(dir, 0o755)
			pth := filepath.Join(dir, fmt.Sprintf("chain-%d-%d.fit", os.Getpid(), idx))
			if os.WriteFile(pth, whole, 0o644) == nil {
				if fh, e := os.Open(pth); e == nil {
					rd = fh
					cleanup = func() { fh.Close(); os.Remove(pth) }
				} else {
					os.Remove(pth)
				}
			}
		}
		if rd != nil {
			if idx%8 < 4 {
				rd.Seek(int64(off), io.SeekStart)
			} else {
				io.CopyN(io.Discard, rd, int64(off)) // positioned by reading, as after earlier calls
			}
			var pf []*fit.File
			var perr error
			op := lib.Guard(func() { pf, perr = fit.DecodeChained(rd, opts...) })
			c.Eval()
			end, _ := rd.Seek(0, io.SeekCurrent)
			if cleanup != nil {
				cleanup()
			}
			if op.Panicked || op.Hang {
				c.Violation(whole, "DecodeChained on a %s positioned at offset %d (member %d of %d) panicked/hung: %s", name, off, m+1, k, op.Panic)
				return
			}
			if perr != nil || len(pf) != k-m {
				c.Violation(whole, "DecodeChained on a %s positioned at offset %d, the start of member %d of %d valid files: %d files, error %v (want %d files, no error)", name, off, m+1, k, len(pf), perr, k-m)
				return
			}
			if end != int64(len(whole)) {
				c.Violation(whole, "DecodeChained on a %s positioned at offset %d left the reader at offset %d of %d", name, off, end, len(whole))
				return
			}
			for i := range pf {
				if diffs := lib.CompareContent(lib.FileContent(files[m+i]), lib.FileContent(pf[i]), lib.CompareOpts{Header: true, Unknown: true, Skip: distanceSkip(pf[i])}); len(diffs) > 0 {
					c.Violation(whole, "member %d decodes differently when the %s was handed over positioned at it: %s", m+i+1, name, lib.DiffsString(diffs, 3))
					return
				}
			}
			c.Count("chains_from_a_positioned_"+name, 1)
		}
	}
	c.Count(fmt.Sprintf("chain_len_%02d", k), 1)
	c.Nontrivial(chain, []byte(ch.String()))
	c.Sample("chain", 1, map[string]interface{}{"files": k, "bytes": len(chain), "chunker": ch.String()})
}

// wrappedEnd is an end-of-stream error of a dynamic type of its own that unwraps to io.EOF.
type wrappedEnd struct{ inner error }

func (e *wrappedEnd) Error() string { return "stream ended (" + e.inner.Error() + ")" }
func (e *wrappedEnd) Unwrap() error { return e.inner }
