package checks

import (
	"bytes"
	"fmt"
	"os"
	"os/exec"
	"path/filepath"
	"regexp"
	"strings"

	"github.com/tormoder/fit"

	"verifharness/lib"
	"verifharness/ref"
)

func init() { registrars = append(registrars, registerC18) }

func registerC18() {
	lib.Register(&lib.Check{
		ID:    "C18",
		Level: "exploration",
		Rule: "PRNG streams of record / lap / session / segment_lap / event messages under every file type hosting them (Activity, Course, ActivitySummary, Segment) with " +
			"component sources forced on the wire (all-ones, high-bit, PRNG patterns, rollovers of accumulated sources, destinations also on the wire), 1-3 files per case decoded " +
			"back to back and once more as a chain; every field of every message is compared with the reference component rules (ref/components.go, accumulators zero at the start " +
			"of each file); deviations are matched against one predictor of the listed defective behaviour, anything else is a violation; every file is also decoded with a wrong CRC, without its CRC bytes, or with a trailing record of an undefined local type: the File returned with the error is judged like the intact one; plus, per run, the expandComponents functions the generator writes for two bundled workbooks with and without -verbose (same text required; how many equal the tree's own functions is reported); non-trivial: at least one component " +
			"expansion was compared; distinct by stream digest",
		Assume: []string{
			"enhanced_speed is not compared when compressed_speed_distance expands in the same record (speed is then both a destination and a source; the statement does not say which wins)",
			"known findings F5/F6/F7 are matched by exact prediction of the defective value (8-bit shift, zero mask, process-lifetime state)",
		},
		MinNontrivial: 300,
		Families: []lib.Family{
			{Name: "streams", N: func(t string) uint64 { return tierN(t, 60000, 1000000) }, Run: c18Case},
			{Name: "long", N: func(t string) uint64 { return tierN(t, 2, 8) }, Run: c18Long},
		},
		Main: c18Generated,
	})
}

var c18ExpandRe = regexp.MustCompile(`(?ms)^func \(x \*(\w+)\) expandComponents\(\) \{\n.*?^\}\n`)

// c18Generated: the expansion code whose behaviour the families above observe is generated. The
// generator is run on the two newest bundled workbooks, plain and with its debugging output on
// (-verbose): the expandComponents functions it writes must be the same text in both runs - what
// is logged is no part of what is generated - and the number of them that are, character for
// character, the functions of the tree under test is reported.
func c18Generated(c *lib.Ctx) {
	repo := RepoDir()
	wd := filepath.Join(lib.OutDir(), "work", "C18")
	os.MkdirAll(wd, 0o755)
	bin := filepath.Join(wd, "fitgen")
	b := exec.Command("go", "build", "-o", bin, "./cmd/fitgen")
	b.Dir = repo
	if out, err := b.CombinedOutput(); err != nil {
		c.Inconclusive("cannot build fitgen: %v: %s", err, tail(out, 300))
		return
	}
	defer os.RemoveAll(wd)
	checkedIn := map[string]string{}
	if src, err := os.ReadFile(filepath.Join(repo, "messages.go")); err == nil {
		for _, m := range c18ExpandRe.FindAllStringSubmatch(string(src), -1) {
			checkedIn[m[1]] = m[0]
		}
	}
	for _, ver := range []string{"21.40", "20.43"} {
		xlsx := filepath.Join(repo, "cmd/fitgen/internal/profile/testdata", ver+".xlsx")
		if _, err := os.Stat(xlsx); err != nil {
			continue
		}
		var bodies [2]map[string]string
		for k, flags := range [][]string{{"-sdk", ver}, {"-verbose", "-sdk", ver}} {
			out := filepath.Join(wd, fmt.Sprintf("gen-%s-%d", ver, k))
			os.MkdirAll(out, 0o755)
			cmd := exec.Command(bin, append(append([]string{}, flags...), xlsx, out)...)
			cmd.Dir = wd
			if o, err := cmd.CombinedOutput(); err != nil {
				c.Violation(nil, "fitgen %v on the bundled %s workbook failed: %v: %s", flags, ver, err, tail(o, 300))
				return
			}
			src, err := os.ReadFile(filepath.Join(out, "messages.go"))
			if err != nil {
				c.Violation(nil, "fitgen %v wrote no messages.go", flags)
				return
			}
			bodies[k] = map[string]string{}
			for _, m := range c18ExpandRe.FindAllStringSubmatch(string(src), -1) {
				bodies[k][m[1]] = m[0]
			}
			c.Eval()
		}
		if len(bodies[0]) == 0 {
			c.Violation(nil, "fitgen on the %s workbook generated no expandComponents function", ver)
			return
		}
		for name, plain := range bodies[0] {
			if v, ok := bodies[1][name]; !ok || v != plain {
				c.Violation([]byte(plain), "workbook %s: (*%s).expandComponents as generated with -verbose differs from the one generated without it:\n%s", ver, name, v)
				return
			}
			if checkedIn[name] == plain {
				c.Count("generated_expansion_functions_identical_to_the_tree_under_test", 1)
			}
			c.Count("generated_expansion_functions_compared_across_flag_sets", 1)
		}
		if len(bodies[1]) != len(bodies[0]) {
			c.Violation(nil, "workbook %s: %d expandComponents functions without -verbose, %d with it", ver, len(bodies[0]), len(bodies[1]))
			return
		}
	}
}

var c18FileTypes = []byte{4, 4, 6, 20, 34}
var c18Mesgs = map[byte][]uint16{
	4:  {20, 20, 20, 20, 19, 18, 21, 21, 142, 23},
	6:  {20, 20, 20, 19, 21, 32},
	20: {18, 19, 34},
	34: {142, 142, 150, 148},
}

func c18Opts(rng *lib.Rand, ft byte) lib.GenOpts {
	return lib.GenOpts{
		FileType:   ft,
		Mesgs:      c18Mesgs[ft],
		Records:    4 + rng.Intn(30),
		Locals:     1 + rng.Intn(4),
		Redefine:   10,
		BigEndian:  50,
		Unknown:    10,
		MaxFields:  5,
		Narrow:     5,
		RepeatPrev: 8,
		ForceFields: func(r *lib.Rand, g uint16) []byte {
			var out []byte
			for _, s := range ref.CompSources(g) {
				if r.Chance(6, 10) {
					out = append(out, s)
				}
			}
			for _, d := range ref.CompDests(g) {
				if r.Chance(15, 100) {
					out = append(out, d)
				}
			}
			if g == ref.MesgEvent {
				out = append(out, 0)
			}
			return out
		},
		ValueFor: func(r *lib.Rand, g uint16, num byte) (uint64, bool) {
			if g == ref.MesgEvent && num == 0 {
				return []uint64{33, 42, 43, 42, 0, 255, 75}[r.Intn(7)], true
			}
			return 0, false
		},
		SizeFor: func(r *lib.Rand, g uint16, num byte) (byte, bool) {
			if g == ref.MesgRecord && num == 8 && r.Chance(9, 10) {
				return 3, true
			}
			return 0, false
		},
		PostData: c18Correlate,
	}
}

// c18Slices: (source, destination, shift, bits) of every component rule, in evaluation order.
var c18Slices = map[uint16][][4]int{
	ref.MesgRecord:     {{2, 78, 0, 16}, {6, 73, 0, 16}, {8, 6, 0, 12}, {8, 5, 12, 12}, {18, 19, 0, 8}, {28, 29, 0, 16}},
	ref.MesgLap:        {{13, 110, 0, 16}, {14, 111, 0, 16}, {42, 112, 0, 16}, {43, 114, 0, 16}, {62, 113, 0, 16}},
	ref.MesgSession:    {{14, 124, 0, 16}, {15, 125, 0, 16}, {49, 126, 0, 16}, {50, 128, 0, 16}, {71, 127, 0, 16}},
	ref.MesgSegmentLap: {{34, 91, 0, 16}, {35, 92, 0, 16}, {54, 93, 0, 16}},
	ref.MesgEvent:      {{2, 3, 0, 16}, {3, 7, 0, 16}, {3, 8, 16, 16}, {3, 11, 0, 8}, {3, 12, 8, 8}, {3, 9, 16, 8}, {3, 10, 24, 8}},
}

var c18Correlated int64

// c18Correlate makes, in 40 % of the data records, destinations that are on the wire together
// with their source depend on it the way a device fills both: the destination's wire value is
// the source's slice, or next to it, or the slice with arbitrary higher bits.
func c18Correlate(r *lib.Rand, def *ref.Record, data [][]byte) {
	rules := c18Slices[def.Global]
	if len(rules) == 0 || !r.Chance(4, 10) {
		return
	}
	at := func(num int) int {
		for i, fd := range def.Fields {
			if int(fd.Num) == num {
				return i
			}
		}
		return -1
	}
	for _, ru := range rules {
		si, di := at(ru[0]), at(ru[1])
		if si < 0 || di < 0 || !r.Chance(7, 10) {
			continue
		}
		sfd, dfd := def.Fields[si], def.Fields[di]
		sb, ok1 := ref.BaseByCode(sfd.Base)
		db, ok2 := ref.BaseByCode(dfd.Base)
		if !ok1 || !ok2 || int(dfd.Size) != db.Size || db.Size > 4 {
			continue
		}
		var src uint64
		if sb.Size == 1 {
			if int(sfd.Size) > 8 {
				continue
			}
			for i := int(sfd.Size) - 1; i >= 0; i-- {
				src = src<<8 | uint64(data[si][i])
			}
		} else if int(sfd.Size) == sb.Size {
			src = ref.Get(data[si], sb.Size, def.Arch)
		} else {
			continue
		}
		mask := uint64(1)<<uint(ru[3]) - 1
		v := src >> uint(ru[2]) & mask
		switch r.Intn(5) {
		case 1:
			v++
		case 2:
			v--
		case 3:
			v |= uint64(1+r.Intn(0xFFFF)) << uint(ru[3])
		case 4:
			v |= ^mask
		}
		ref.Put(data[di], v, db.Size, def.Arch)
		c18Correlated++
	}
}

func c18Case(c *lib.Ctx, idx uint64) {
	rng := lib.NewRand("C18.streams", idx)
	nfiles := 1 + rng.Intn(3)
	var plans []*ref.Plan
	var chain []byte
	for k := 0; k < nfiles; k++ {
		ft := c18FileTypes[rng.Intn(len(c18FileTypes))]
		g := lib.NewPlanGen(rng, c18Opts(rng, ft))
		p := g.Fill()
		plans = append(plans, p)
		chain = append(chain, p.Bytes()...)
	}
	okAll := true
	for _, p := range plans {
		b := p.Bytes()
		c.SetInflight(b)
		f, derr, out := lib.GuardedDecode(b)
		c.Eval()
		if out.Panicked || out.Hang {
			c.Violation(b, "Decode panicked/hung: %s\n%s", out.Panic, out.Stack)
			lib.ShadowUnknown()
			return
		}
		if derr != nil {
			c.Violation(b, "Decode rejected a well-formed stream: %v", derr)
			lib.ShadowUnknown()
			return
		}
		if !c18Compare(c, p, f, b) {
			okAll = false
		}
		// The same file with a wrong file CRC, or without its CRC bytes: every record is
		// complete, Decode reports the error and returns the File - whose messages must have
		// been expanded like those of the intact file (expansion belongs to the message, not to
		// the successful end of the file).
		b2 := append([]byte{}, b...)
		what := "with a wrong file CRC"
		free := -1
		var defined [16]bool
		for i := range p.Records {
			if p.Records[i].IsDef {
				defined[p.Records[i].Local&15] = true
			}
		}
		for l := 15; l >= 0; l-- {
			if !defined[l] {
				free = l
				break
			}
		}
		switch v := (idx + uint64(len(b))) % 4; {
		case v == 0:
			b2[len(b2)-1] ^= 0x5A
		case v == 1:
			b2 = b2[:len(b2)-2]
			what = "without its two CRC bytes"
		case free >= 0:
			// one more record at the end of the data, on a local type that was never defined:
			// the data section itself ends in an error, after every message was complete
			p2 := *p
			p2.Records = append(append([]ref.Record(nil), p.Records...), ref.Record{Local: byte(free), Data: [][]byte{{0x00}}})
			b2 = p2.Bytes()
			what = "that ends with a record of an undefined local type"
		default:
			b2[len(b2)-2] ^= 0x01
		}
		c.SetInflight(b2)
		f2, derr2, out2 := lib.GuardedDecode(b2)
		c.Eval()
		if out2.Panicked || out2.Hang {
			c.Violation(b2, "Decode of a file %s panicked/hung: %s", what, out2.Panic)
			lib.ShadowUnknown()
			return
		}
		if derr2 == nil || f2 == nil {
			c.Violation(b2, "Decode of a file %s: error %v, File returned: %v (want an error and the File)", what, derr2, f2 != nil)
			lib.ShadowUnknown()
			return
		}
		if !c18Compare(c, p, f2, b2) {
			okAll = false
		}
		c.Count("files_decoded_"+strings.ReplaceAll(what, " ", "_"), 1)
	}
	// The same files as one chained stream.
	c.SetInflight(chain)
	var files []*fit.File
	var cerr error
	out := lib.Guard(func() { files, cerr = fit.DecodeChained(bytes.NewReader(chain)) })
	c.Eval()
	if out.Panicked || out.Hang {
		c.Violation(chain, "DecodeChained panicked/hung: %s", out.Panic)
		lib.ShadowUnknown()
		return
	}
	if cerr != nil || len(files) != len(plans) {
		c.Violation(chain, "DecodeChained over %d well-formed files returned %d files, error %v", len(plans), len(files), cerr)
		lib.ShadowUnknown()
		return
	}
	for i, p := range plans {
		if !c18Compare(c, p, files[i], chain) {
			okAll = false
		}
	}
	if c18Correlated > 0 {
		c.Count("destinations_written_in_correlation_with_their_source", c18Correlated)
		c18Correlated = 0
	}
	if okAll {
		c.Count("cases_fully_conforming_or_known", 1)
	}
}

// c18Compare compares one decoded file with the reference rules and
// classifies deviations. It advances the shadow of the defective accumulator.
func c18Compare(c *lib.Ctx, p *ref.Plan, f *fit.File, input []byte) bool {
	prof := lib.Profile()
	ex, err := lib.Expect(p, lib.ExpectOpts{})
	if err != nil || ex.Fail {
		c.Violation(input, "harness: model failed: %v", err)
		return false
	}
	got := lib.FileContent(f)
	type key struct {
		slot string
		idx  int
	}
	ambig := map[key]bool{}
	expansions := 0
	metaBy := map[key]*lib.MsgMeta{}
	for i := range ex.Meta {
		m := &ex.Meta[i]
		if !m.Hosted {
			continue
		}
		metaBy[key{m.Slot, m.Index}] = m
		expansions += len(m.Comp.Expanded)
		if m.Comp.AmbigSpeed {
			ambig[key{m.Slot, m.Index}] = true
		}
		for _, d := range m.Comp.Expanded {
			c.Count(fmt.Sprintf("expanded:%d.%d", m.Global, d), 1)
		}
	}
	es := prof.Field(ref.MesgRecord, 73)
	skip := func(slot string, g uint16, idx int, si int) bool {
		return g == ref.MesgRecord && es != nil && si == es.Sindex && ambig[key{slot, idx}]
	}
	diffs := lib.CompareContent(ex.Content, got, lib.CompareOpts{Header: false, Skip: skip})

	// What the listed defects make of the accumulated destinations.
	dist, cyc, pow := prof.Field(ref.MesgRecord, 5), prof.Field(ref.MesgRecord, 19), prof.Field(ref.MesgRecord, 29)
	preds := lib.TrackFile(f)
	ok := true
	for _, d := range diffs {
		k := key{d.Slot, d.Index}
		m := metaBy[k]
		if d.Global == ref.MesgRecord && m != nil && d.Sindex >= 0 && d.Slot == "Records" {
			switch {
			case dist != nil && d.Sindex == dist.Sindex && m.Comp.CSD && d.GotV.K == 'u' && d.Index < len(preds):
				pr := preds[d.Index]
				if lib.ShadowIsUnknown() {
					// Resynchronise on the observed value; only later increments can be judged.
					lib.ShadowResync(uint32(d.GotV.N), uint32(pr.Raw[1])>>4|uint32(uint8(pr.Raw[2]<<4)))
					c.Count("distance_resync", 1)
					continue
				}
				class, f5, f6 := lib.ClassifyDistance(uint32(d.GotV.N), pr)
				if class == "known" {
					if f6 {
						c.Known("F6", input, "record.distance from compressed_speed_distance % x: expected %s, got %s = value with the high nibble of the 12-bit distance lost", pr.Raw[:], d.Exp, d.Got)
					}
					if f5 {
						c.Known("F5", input, "record.distance: expected %s (accumulated since the start of this file), got %s = accumulation continued from earlier files of the process", d.Exp, d.Got)
					}
					continue
				}
			case cyc != nil && d.Sindex == cyc.Sindex && m.Comp.Cycles && d.GotV.K == 'u' && d.GotV.N == 0:
				c.Known("F7", input, "record.total_cycles: expected %s (running sum of cycles), got 0: the accumulator has a zero mask", d.Exp)
				continue
			case pow != nil && d.Sindex == pow.Sindex && m.Comp.Power && d.GotV.K == 'u' && d.GotV.N == 0:
				c.Known("F7", input, "record.accumulated_power: expected %s (running sum of compressed_accumulated_power), got 0: the accumulator has a zero mask", d.Exp)
				continue
			}
		}
		ok = false
		c.Violation(input, "component expansion differs from the profile's rule: %s", d.String())
		break
	}
	// If distance matched the reference exactly (no diff), the shadow is still right only if it equals the reference; keep it as computed.
	if expansions > 0 && ok {
		c.Nontrivial(p.Bytes())
		c.Count("component_expansions_compared", int64(expansions))
	}
	c.Sample("stream", 2, map[string]interface{}{"records": len(p.Records), "expansions": expansions, "file_type": ex.Content.FileType})
	return ok
}

// c18Long: however long the recording, every record (lap) with a valid source gets its
// destinations: 140 000+ records with altitude and speed, 70 000 laps with avg/max speed.
func c18Long(c *lib.Ctx, idx uint64) {
	rng := lib.NewRand("C18.long", idx)
	arch := byte(idx % 2)
	nrec := 140000 + int(idx)*23000 + rng.Intn(5000)
	nlap := 70000 + rng.Intn(3000)
	put := func(v uint64, n int) []byte {
		b := make([]byte, n)
		ref.Put(b, v, n, arch)
		return b
	}
	plan := &ref.Plan{HeaderSize: 14, Proto: 0x20, ProfVer: 2115}
	plan.Records = append(plan.Records,
		ref.Record{IsDef: true, Local: 0, Global: 0, Fields: []ref.FieldDef{{Num: 0, Size: 1, Base: 0}}},
		ref.Record{Local: 0, Data: [][]byte{{4}}},
		ref.Record{IsDef: true, Local: 1, Arch: arch, Global: 20, Fields: []ref.FieldDef{{Num: 253, Size: 4, Base: 0x86}, {Num: 2, Size: 2, Base: 0x84}, {Num: 6, Size: 2, Base: 0x84}}},
		ref.Record{IsDef: true, Local: 2, Arch: arch, Global: 19, Fields: []ref.FieldDef{{Num: 254, Size: 2, Base: 0x84}, {Num: 13, Size: 2, Base: 0x84}, {Num: 14, Size: 2, Base: 0x84}}})
	for i := 0; i < nrec; i++ {
		plan.Records = append(plan.Records, ref.Record{Local: 1, Data: [][]byte{put(uint64(0x30000000+i), 4), put(uint64(i%60000), 2), put(uint64((i*7)%60000), 2)}})
		if i < nlap {
			plan.Records = append(plan.Records, ref.Record{Local: 2, Data: [][]byte{put(uint64(i%65000), 2), put(uint64(i%50000+1), 2), put(uint64(i%50000+2), 2)}})
		}
	}
	b := plan.Bytes()
	c.SetInflight(b[:4096])
	f, derr, o := lib.GuardedDecode(b)
	c.Eval()
	if o.Panicked || o.Hang || derr != nil {
		c.Violation(b[:4096], "Decode failed on a well-formed recording of %d records and %d laps: %v %s", nrec, nlap, derr, o.Panic)
		lib.ShadowUnknown()
		return
	}
	lib.TrackFile(f)
	a, err := f.Activity()
	if err != nil || a == nil || len(a.Records) != nrec || len(a.Laps) != nlap {
		c.Violation(b[:4096], "a recording of %d records and %d laps decodes to %d records and %d laps", nrec, nlap, len(a.Records), len(a.Laps))
		return
	}
	for i, r := range a.Records {
		wantAlt, wantSpd := uint32(i%60000), uint32((i*7)%60000)
		if uint32(r.Altitude) != wantAlt || uint32(r.Speed) != wantSpd || r.EnhancedAltitude != wantAlt || r.EnhancedSpeed != wantSpd {
			c.Violation(b[:4096], "record %d of %d: altitude %d speed %d on the wire; decoded altitude %d speed %d, enhanced_altitude %d enhanced_speed %d (the enhanced fields must hold the 16-bit values)", i, nrec, wantAlt, wantSpd, r.Altitude, r.Speed, r.EnhancedAltitude, r.EnhancedSpeed)
			return
		}
	}
	for i, l := range a.Laps {
		wa, wm := uint32(i%50000+1), uint32(i%50000+2)
		if uint32(l.AvgSpeed) != wa || uint32(l.MaxSpeed) != wm || l.EnhancedAvgSpeed != wa || l.EnhancedMaxSpeed != wm {
			c.Violation(b[:4096], "lap %d of %d: avg_speed %d max_speed %d on the wire; decoded enhanced_avg_speed %d enhanced_max_speed %d", i, nlap, wa, wm, l.EnhancedAvgSpeed, l.EnhancedMaxSpeed)
			return
		}
	}
	c.Count("records_in_long_recordings_compared", int64(nrec))
	c.Count("laps_in_long_recordings_compared", int64(nlap))
	c.Nontrivial(b[:4096], []byte{byte(idx)})
}
