package checks

import (
	"bytes"
	"fmt"
	"os"
	"path/filepath"
	"sort"
	"sync"

	"verifharness/lib"
	"verifharness/ref"
)

// RepoDir is the tree under test.
func RepoDir() string {
	if d := os.Getenv("VERIF_REPO"); d != "" {
		return d
	}
	return "/repo"
}

// CorpusFile is one device file of the repository's test data.
type CorpusFile struct {
	Path string
	Data []byte
}

var (
	corpusOnce sync.Once
	corpusList []CorpusFile
)

// Corpus returns the .fit files under testdata, sorted by path (cached).
func Corpus() []CorpusFile {
	corpusOnce.Do(func() { corpusList = readCorpus() })
	return corpusList
}

func readCorpus() []CorpusFile {
	var out []CorpusFile
	filepath.Walk(filepath.Join(RepoDir(), "testdata"), func(p string, info os.FileInfo, err error) error {
		if err != nil || info.IsDir() || filepath.Ext(p) != ".fit" {
			return nil
		}
		b, err := os.ReadFile(p)
		if err == nil {
			rel, _ := filepath.Rel(RepoDir(), p)
			out = append(out, CorpusFile{rel, b})
		}
		return nil
	})
	sort.Slice(out, func(i, j int) bool { return out[i].Path < out[j].Path })
	return out
}

// SelfTest validates the reference model against things that are not the
// library under test.
func SelfTest() int { return selfTest(true) }

// SelfTestQuiet is SelfTest without output on success.
func SelfTestQuiet() int { return selfTest(false) }

func selfTest(verbose bool) int {
	fail := 0
	say := func(ok bool, format string, args ...interface{}) {
		if !ok {
			fail++
			fmt.Printf("selftest FAIL: "+format+"\n", args...)
		} else if verbose {
			fmt.Printf("selftest ok:   "+format+"\n", args...)
		}
	}
	// CRC-16/ARC check value.
	say(ref.CRC([]byte("123456789")) == 0xBB3D, "CRC-16/ARC check value 0xBB3D for \"123456789\"")
	d := []byte("123456789")
	c := ref.CRC(d)
	say(ref.CRC(append(append([]byte{}, d...), byte(c), byte(c>>8))) == 0, "CRC residue is zero")
	lo, hi := ref.CRCPreimage(0xBEEF)
	say(ref.CRC([]byte{lo, hi}) == 0xBEEF, "CRC preimage table")

	// Grammar parser against device files not written by this library.
	okFrames, rejected := 0, 0
	for _, cf := range Corpus() {
		p, err := ref.Parse(cf.Data, ref.ParseOptions{})
		dir := filepath.Base(filepath.Dir(cf.Path))
		switch {
		case dir == "corrupt":
			if err != nil {
				rejected++
			} else {
				say(false, "grammar parser accepted corrupt file %s", cf.Path)
			}
		case dir == "chained":
			if err == nil {
				okFrames++
			} else {
				say(false, "grammar parser rejected first frame of %s: %v", cf.Path, err)
			}
		default:
			if err != nil {
				say(false, "grammar parser rejected %s: %v", cf.Path, err)
			} else {
				okFrames++
				if p.FrameLen != len(cf.Data) {
					// Some device files carry trailing frames; not an error.
					_ = p
				}
			}
		}
	}
	say(okFrames >= 25 && rejected == 2, "grammar parser: %d intact device frames accepted, %d corrupt rejected", okFrames, rejected)

	// Builder / parser round trip.
	rt := 0
	for i := uint64(0); i < 300; i++ {
		rng := lib.NewRand("selftest", i)
		pl := lib.GenGrammarPlan(rng)
		b := pl.Bytes()
		p, err := ref.Parse(b, ref.ParseOptions{})
		if err != nil {
			say(false, "builder output rejected by parser (case %d): %v", i, err)
			break
		}
		if len(p.Records) != len(pl.Records) {
			say(false, "round trip record count %d != %d (case %d)", len(p.Records), len(pl.Records), i)
			break
		}
		same := true
		for k := range p.Records {
			if !bytes.Equal(ref.RecordBytes(&p.Records[k]), ref.RecordBytes(&pl.Records[k])) {
				same = false
			}
		}
		if !same {
			say(false, "round trip record mismatch (case %d)", i)
			break
		}
		rt++
	}
	say(rt == 300, "wire builder / grammar parser round trip on %d plans", rt)
	if fail > 0 {
		return 1
	}
	return 0
}
