package checks

import (
	"fmt"
	"log"
	"reflect"

	"github.com/tormoder/fit"
)

func reflectValue(v interface{}) reflect.Value { return reflect.ValueOf(v) }

// optionList returns the decode options selected by mask (bit 0 logger lg, bit 1 unknown fields,
// bit 2 unknown messages) in the order perm%6 names, with the option perm/6%4 picks given twice
// (0: none): the order and repetition of options must not matter.
func optionList(mask int, lg fit.Logger, perm uint64) []fit.DecodeOption {
	var sel []fit.DecodeOption
	orders := [6][3]int{{0, 1, 2}, {0, 2, 1}, {1, 0, 2}, {1, 2, 0}, {2, 0, 1}, {2, 1, 0}}
	// the logger's dynamic type rotates: the caller's pointer, a struct value, a function value,
	// an array value, or a *log.Logger that writes into the caller's logger
	if lg != nil {
		switch perm / 48 % 5 {
		case 1:
			lg = valueLogger{lg}
		case 2:
			inner := lg
			lg = funcLogger(func(s string) { inner.Print(s) })
		case 3:
			lg = arrayLogger{lg}
		case 4:
			lg = log.New(logWriter{lg}, "", 0)
		}
	}
	mk := func(bit int) fit.DecodeOption {
		switch bit {
		case 0:
			return fit.WithLogger(lg)
		case 1:
			return fit.WithUnknownFields()
		}
		return fit.WithUnknownMessages()
	}
	for _, bit := range orders[perm%6] {
		if mask&(1<<uint(bit)) != 0 {
			sel = append(sel, mk(bit))
		}
	}
	if dup := int(perm / 6 % 4); dup > 0 && mask&(1<<uint(dup-1)) != 0 {
		if perm/24%2 == 0 {
			sel = append(sel, mk(dup-1))
		} else {
			sel = append([]fit.DecodeOption{mk(dup - 1)}, sel...)
		}
	}
	// a nil logger ("no logging", e.g. a logger variable that was never set) somewhere in the
	// list: last (it then wins over an earlier logger), first, or on its own
	switch perm / 240 % 4 {
	case 1:
		sel = append(sel, fit.WithLogger(nil))
	case 2:
		sel = append([]fit.DecodeOption{fit.WithLogger(nil)}, sel...)
	}
	return sel
}

// Loggers of other dynamic kinds than a pointer; all of them hand on to an inner logger.
type valueLogger struct{ inner fit.Logger }

func (l valueLogger) Print(a ...interface{})            { l.inner.Print(a...) }
func (l valueLogger) Printf(f string, a ...interface{}) { l.inner.Printf(f, a...) }
func (l valueLogger) Println(a ...interface{})          { l.inner.Println(a...) }

type funcLogger func(string)

func (l funcLogger) Print(a ...interface{})            { l(fmt.Sprint(a...)) }
func (l funcLogger) Printf(f string, a ...interface{}) { l(fmt.Sprintf(f, a...)) }
func (l funcLogger) Println(a ...interface{})          { l(fmt.Sprintln(a...)) }

type arrayLogger [1]fit.Logger

func (l arrayLogger) Print(a ...interface{})            { l[0].Print(a...) }
func (l arrayLogger) Printf(f string, a ...interface{}) { l[0].Printf(f, a...) }
func (l arrayLogger) Println(a ...interface{})          { l[0].Println(a...) }

type logWriter struct{ inner fit.Logger }

func (w logWriter) Write(p []byte) (int, error) { w.inner.Print(string(p)); return len(p), nil }
