package checks

import (
	"reflect"

	"github.com/tormoder/fit"
)

func reflectValue(v interface{}) reflect.Value { return reflect.ValueOf(v) }

// optionList returns the decode options selected by mask (bit 0 logger lg, bit 1 unknown fields,
// bit 2 unknown messages) in the order perm%6 names, with the option perm/6%4 picks given twice
// (0: none): the order and repetition of options must not matter.
func optionList(mask int, lg fit.Logger, perm uint64) []fit.DecodeOption {
	var sel []fit.DecodeOption
	orders := [6][3]int{{0, 1, 2}, {0, 2, 1}, {1, 0, 2}, {1, 2, 0}, {2, 0, 1}, {2, 1, 0}}
	mk := func(bit int) fit.DecodeOption {
		switch bit {
		case 0:
			return fit.WithLogger(lg)
		case 1:
			return fit.WithUnknownFields()
		}
		return fit.WithUnknownMessages()
	}
	for _, bit := range orders[perm%6] {
		if mask&(1<<uint(bit)) != 0 {
			sel = append(sel, mk(bit))
		}
	}
	if dup := int(perm / 6 % 4); dup > 0 && mask&(1<<uint(dup-1)) != 0 {
		if perm/24%2 == 0 {
			sel = append(sel, mk(dup-1))
		} else {
			sel = append([]fit.DecodeOption{mk(dup - 1)}, sel...)
		}
	}
	return sel
}
