package checks

import "reflect"

func reflectValue(v interface{}) reflect.Value { return reflect.ValueOf(v) }
