package checks

import (
	"archive/zip"
	"bytes"
	"encoding/json"
	"fmt"
	"go/ast"
	"go/importer"
	"go/parser"
	"go/token"
	"go/types"
	"io"
	"os"
	"os/exec"
	"path/filepath"
	"regexp"
	"sort"
	"strconv"
	"strings"
	"sync"
	"syscall"
	"time"

	"verifharness/lib"
	"verifharness/ref"
)

func init() { registrars = append(registrars, registerC19) }

func registerC19() {
	lib.Register(&lib.Check{
		ID:    "C19",
		Level: "exploration",
		Rule: "the fitgen command is built from the working tree and run on the 5 bundled SDK workbooks and on variants in which the product cell (column P) of a PRNG, " +
			"dependency-closed subset of enabled field and sub-field rows - PRNG subsets of 1-140 rows and class-wide selections (every date_time row, every local_date_time row, every array, every string, every coordinate, every row with components, every sub-field, the first / last row of every message, every other row, all unsigned / signed integer rows, everything but timestamps, every field of half of the messages, every scaled scalar row, every scaled row, every unscaled row, single-message products: file_id plus one message - quick: one message per distinct feature signature, thorough: every message; these get one run plus an in-process type check of the generated package with go/types instead of the full treatment) - is rewritten to 0 or emptied (everything else in the workbook byte-identical); each configuration is run " +
			"four times into fresh directories (.xlsx with -sdk, and wrapped as FitSDKRelease_X.Y.zip - an archive that holds a directory entry, other files of the release and, in two of three, a macOS AppleDouble companion `._Profile.xlsx` behind the workbook; twice each). Oracles: exit status 0; the four output files byte-identical " +
			"across all runs; SDK version in header and constants; the generated files compile together with the library's support code (accumu, pfield, latlng, time, types_man, " +
			"internal/types) in a scratch module, and a dump program linked against them prints every message's struct fields and table entries, which are compared with the " +
			"harness's independent reading of the variant workbook (i-th enabled row <-> i-th struct field, entry = {i, field number, base type, array flag}; nothing for disabled " +
			"rows). One of the four runs has its TMPDIR on another file system than the output directory when the host has one. A case is one configuration; non-trivial: at least one row was disabled or it is a stock workbook; distinct by configuration",
		Assume: []string{
			"'no other enabled row depends on it': a row stays enabled while an enabled row names it as component target or as reference field of an enabled sub-field (computed from the workbook by ref/xlsx.go)",
			"only the part of the library the generated files depend on is compiled: file_types.go / file.go track SDK 21.115 and do not compile against any bundled workbook even unmodified",
		},
		MinNontrivial: 5,
		Shards:        1,
		Main:          c19Main,
	})
}

const c19Kinds = 17

// c19SingleMessages returns the messages for which a single-message product (file_id + that message)
// is generated: every enabled message, or one representative per distinct feature signature
// (which kinds of rows the message has: scaled scalars, scaled arrays, times, strings, components ...).
func c19SingleMessages(repo, version string, all bool) []string {
	data, err := os.ReadFile(filepath.Join(repo, "cmd/fitgen/internal/profile/testdata", version+".xlsx"))
	if err != nil {
		return nil
	}
	wb, err := ref.ReadXLSX(data)
	if err != nil {
		return nil
	}
	rows, err := wb.ProfileRows()
	if err != nil {
		return nil
	}
	sig := map[string]map[string]bool{}
	var order []string
	for _, r := range rows {
		if !r.Enabled || r.Mesg == "file_id" {
			continue
		}
		if sig[r.Mesg] == nil {
			sig[r.Mesg] = map[string]bool{}
			order = append(order, r.Mesg)
		}
		s := sig[r.Mesg]
		switch {
		case r.Scale != "" && r.Array != "":
			s["scaled-array"] = true
		case r.Scale != "":
			s["scaled-scalar"] = true
		}
		if r.Type == "date_time" {
			s["utc"] = true
		}
		if r.Type == "local_date_time" {
			s["local"] = true
		}
		if r.Type == "string" {
			s["string"] = true
		}
		if r.Array != "" {
			s["array"] = true
		}
		if len(r.Components) > 0 {
			s["components"] = true
		}
		if r.IsSubfield {
			s["subfields"] = true
		}
		if strings.HasSuffix(r.Name, "_lat") {
			s["coord"] = true
		}
	}
	if all {
		return order
	}
	seen := map[string]bool{}
	var out []string
	for _, m := range order {
		var keys []string
		for k := range sig[m] {
			keys = append(keys, k)
		}
		sort.Strings(keys)
		k := strings.Join(keys, "+")
		if !seen[k] {
			seen[k] = true
			out = append(out, m)
		}
	}
	return out
}

var workbookVersions = []string{"16.20", "20.14", "20.27", "20.43", "21.40"}

type c19Expect struct {
	Mesg   string // CamelCase + "Msg"
	Fields []c19Field
}

type c19Field struct {
	Name string
	Num  int
	Bits uint16
}

func baseIndexByName(n string) int {
	if n == "unit8" { // typo in SDK 20.14, accepted by the generator
		n = "uint8"
	}
	for i, bt := range ref.BaseTypes {
		if bt.Name == n {
			return i
		}
	}
	return -1
}

// c19Model computes, from the independent reading of a workbook, which rows
// are enabled after disabling the rows in 'disable' and what must be generated.
func c19Model(rows []ref.ProfRow, types []ref.ProfType, disable map[int]bool) ([]c19Expect, map[int]bool, error) {
	typeBase := map[string]string{}
	for _, t := range types {
		typeBase[t.Name] = t.Base
	}
	enabled := map[int]bool{}
	for _, r := range rows {
		enabled[r.RowNum] = r.Enabled && !disable[r.RowNum]
	}
	for _, r := range rows {
		if r.IsSubfield && !enabled[r.ParentRow] {
			enabled[r.RowNum] = false
		}
	}
	var out []c19Expect
	var cur *c19Expect
	curName := ""
	for _, r := range rows {
		if r.Mesg != curName {
			out = append(out, c19Expect{Mesg: ref.CamelCase(r.Mesg) + "Msg"})
			cur = &out[len(out)-1]
			curName = r.Mesg
		}
		if r.IsSubfield || !enabled[r.RowNum] {
			continue
		}
		array := r.Array != ""
		kind, base := ref.KNative, -1
		switch {
		case strings.HasSuffix(r.Name, "_lat"):
			kind, base = ref.KLat, ref.BSint32
		case strings.HasSuffix(r.Name, "_long"):
			kind, base = ref.KLng, ref.BSint32
		case r.Type == "date_time":
			kind, base = ref.KTimeUTC, ref.BUint32
		case r.Type == "local_date_time":
			kind, base = ref.KTimeLocal, ref.BUint32
		case r.Type == "bool":
			base = ref.BEnum
		default:
			if b, ok := typeBase[r.Type]; ok {
				base = baseIndexByName(b)
			} else {
				base = baseIndexByName(r.Type)
			}
		}
		if base < 0 {
			return nil, nil, fmt.Errorf("row %d: cannot resolve type %q", r.RowNum, r.Type)
		}
		bits := uint16(kind)<<6 | uint16(base)
		if array {
			bits |= 0x20
		}
		cur.Fields = append(cur.Fields, c19Field{Name: ref.CamelCase(r.Name), Num: r.Num, Bits: bits})
	}
	return out, enabled, nil
}

// c19Close removes from 'disable' every row another enabled row depends on.
func c19Close(rows []ref.ProfRow, disable map[int]bool) {
	byMesg := map[string][]ref.ProfRow{}
	for _, r := range rows {
		byMesg[r.Mesg] = append(byMesg[r.Mesg], r)
	}
	for changed := true; changed; {
		changed = false
		for _, rs := range byMesg {
			en := func(r ref.ProfRow) bool {
				if !r.Enabled || disable[r.RowNum] {
					return false
				}
				if r.IsSubfield {
					for _, p := range rs {
						if p.RowNum == r.ParentRow {
							return p.Enabled && !disable[p.RowNum]
						}
					}
				}
				return true
			}
			need := map[string]bool{}
			for _, r := range rs {
				if !en(r) {
					continue
				}
				for _, t := range r.Components {
					need[t] = true
				}
				if r.IsSubfield {
					for _, t := range r.RefFields {
						need[t] = true
					}
				}
			}
			for _, r := range rs {
				if !r.IsSubfield && need[r.Name] && disable[r.RowNum] {
					delete(disable, r.RowNum)
					changed = true
				}
			}
		}
	}
}

var c19CellP = regexp.MustCompile(`<((?:x:)?)c r="P(\d+)"[^>]*?(?:/>|>.*?</(?:x:)?c>)`)

// patchWorkbook rewrites the product cell of the given rows in the Messages sheet.
func patchWorkbook(data []byte, sheetFile string, rows map[int]bool, empty func(row int) bool) ([]byte, int, error) {
	zr, err := zip.NewReader(bytes.NewReader(data), int64(len(data)))
	if err != nil {
		return nil, 0, err
	}
	var buf bytes.Buffer
	zw := zip.NewWriter(&buf)
	patched := 0
	for _, f := range zr.File {
		rc, err := f.Open()
		if err != nil {
			return nil, 0, err
		}
		b, err := io.ReadAll(rc)
		rc.Close()
		if err != nil {
			return nil, 0, err
		}
		if f.Name == sheetFile {
			// one pass over all cells of column P
			s := c19CellP.ReplaceAllStringFunc(string(b), func(m string) string {
				sub := c19CellP.FindStringSubmatch(m)
				row, _ := strconv.Atoi(sub[2])
				if !rows[row] {
					return m
				}
				patched++
				pre := sub[1]
				if empty(row) {
					return "<" + pre + `c r="P` + sub[2] + `"/>`
				}
				return "<" + pre + `c r="P` + sub[2] + `"><` + pre + "v>0</" + pre + "v></" + pre + "c>"
			})
			b = []byte(s)
		}
		w, err := zw.CreateHeader(&zip.FileHeader{Name: f.Name, Method: zip.Deflate})
		if err != nil {
			return nil, 0, err
		}
		w.Write(b)
	}
	if err := zw.Close(); err != nil {
		return nil, 0, err
	}
	return buf.Bytes(), patched, nil
}

const c19Dump = `//go:build verif

package main

import (
	"encoding/json"
	"os"

	"github.com/tormoder/fit"
)

type entry struct {
	Slot, Num uint8
	Sindex    int
	Bits      uint16
	Length    uint8
}

type mesg struct {
	Num     uint16
	Type    string
	Fields  []string
	Entries []entry
}

func main() {
	out := struct {
		Major, Minor int
		Known        []uint16
		Messages     []mesg
	}{Major: fit.ProfileMajorVersion, Minor: fit.ProfileMinorVersion, Known: fit.VerifKnownMesgNums()}
	byMesg := map[uint16][]entry{}
	for _, e := range fit.VerifProfile() {
		byMesg[e.Mesg] = append(byMesg[e.Mesg], entry{e.Slot, e.Num, e.Sindex, e.TypeBits, e.Length})
	}
	_, nt, _ := fit.VerifTableLens()
	for m := 0; m < nt; m++ {
		t := fit.VerifMesgType(uint16(m))
		if t == nil {
			continue
		}
		mm := mesg{Num: uint16(m), Type: t.Name(), Entries: byMesg[uint16(m)]}
		for i := 0; i < t.NumField(); i++ {
			mm.Fields = append(mm.Fields, t.Field(i).Name)
		}
		nv := fit.VerifNewMesg(uint16(m))
		if !nv.IsValid() || nv.Elem().Type() != t {
			mm.Type += " (constructor mismatch)"
		}
		out.Messages = append(out.Messages, mm)
	}
	json.NewEncoder(os.Stdout).Encode(out)
}
`

type c19Config struct {
	version string
	variant int    // 0 = stock, 1..99 PRNG subsets, 100+kind class-wide selections
	keep    string // single-message product: file_id plus this message (light treatment: one run + type check)
}

func copyFile(dst, src string) error {
	b, err := os.ReadFile(src)
	if err != nil {
		return err
	}
	os.MkdirAll(filepath.Dir(dst), 0o755)
	return os.WriteFile(dst, b, 0o644)
}

func c19Main(c *lib.Ctx) {
	repo := RepoDir()
	wd := filepath.Join(lib.OutDir(), "work", "C19")
	os.MkdirAll(wd, 0o755)
	fitgen := filepath.Join(wd, "fitgen")
	cmd := exec.Command("go", "build", "-o", fitgen, "./cmd/fitgen")
	cmd.Dir = repo
	if out, err := cmd.CombinedOutput(); err != nil {
		c.Inconclusive("fitgen does not build from the working tree: %v: %s", err, tail(out, 600))
		return
	}
	nvar := int(tierN(c.Tier, 4, 48))
	var cfgs []c19Config
	for wi, v := range workbookVersions {
		for k := 0; k <= nvar; k++ {
			cfgs = append(cfgs, c19Config{version: v, variant: k})
		}
		// class-wide selections (variant 100+kind): quick = 3 kinds per workbook, rotating; thorough = all
		for kind := 0; kind < 17; kind++ {
			if c.Tier == "thorough" || (kind+wi)%5 < 2 || kind == (wi*3+int(lib.Seed()))%17 || kind == 14+wi%3 {
				cfgs = append(cfgs, c19Config{version: v, variant: 100 + kind})
			}
		}
		// single-message products: quick = one message per distinct feature signature, thorough = every message
		for _, m := range c19SingleMessages(repo, v, c.Tier == "thorough") {
			cfgs = append(cfgs, c19Config{version: v, variant: 200, keep: m})
		}
	}
	var mu sync.Mutex
	var wg sync.WaitGroup
	sem := make(chan struct{}, 12)
	for i, cfg := range cfgs {
		wg.Add(1)
		sem <- struct{}{}
		go func(i int, cfg c19Config) {
			defer wg.Done()
			defer func() { <-sem }()
			dir := filepath.Join(wd, fmt.Sprintf("cfg-%s-%d%s", cfg.version, cfg.variant, cfg.keep))
			os.RemoveAll(dir)
			os.MkdirAll(dir, 0o755)
			defer os.RemoveAll(dir)
			t0 := time.Now()
			msg, info := c19Run(repo, fitgen, dir, cfg)
			mu.Lock()
			defer mu.Unlock()
			cat := "random"
			switch {
			case cfg.keep != "":
				cat = "single-message"
			case cfg.variant >= 100:
				cat = fmt.Sprintf("class-%d", cfg.variant-100)
			case cfg.variant == 0:
				cat = "stock"
			}
			c.Count("wall_ms_"+cat, time.Since(t0).Milliseconds())
			c.EvalN(4)
			if strings.HasPrefix(msg, "INCONCLUSIVE:") {
				c.Inconclusive("%s", msg)
				return
			}
			if msg != "" {
				c.Violation([]byte(fmt.Sprintf("workbook %s variant %d seed %d: disabled rows %v", cfg.version, cfg.variant, lib.Seed(), info.disabledRows)), "workbook %s variant %d (rows disabled: %d): %s", cfg.version, cfg.variant, len(info.disabledRows), msg)
				return
			}
			c.Nontrivial([]byte(fmt.Sprintf("%s/%d/%v", cfg.version, cfg.variant, info.disabledRows)))
			c.Count("configurations", 1)
			c.Count("rows_disabled_total", int64(len(info.disabledRows)))
			c.Count("fitgen_runs", 4)
			c.Count("typecheck_millis", info.tcMillis)
			if info.otherFS {
				c.Count("runs_with_TMPDIR_on_another_file_system", 1)
			}
			c.Count("messages_compared", int64(info.messages))
			c.Count("fields_compared", int64(info.fields))
			if cfg.variant == 1 {
				c.Sample("variant", 2, map[string]interface{}{"workbook": cfg.version, "disabled_rows": info.disabledRows, "messages_compared": info.messages, "fields_compared": info.fields})
			}
		}(i, cfg)
	}
	wg.Wait()
}

type c19Info struct {
	tcMillis     int64
	disabledRows []int
	messages     int
	fields       int
	otherFS      bool // one run had its TMPDIR on another file system than the output directory
}

// c19OtherFS returns a fresh directory on a file system other than the one that holds dir
// (a tmpfs such as /dev/shm or /run/shm), or "" if this host has none that is writable.
func c19OtherFS(dir string) string {
	var here syscall.Stat_t
	if syscall.Stat(dir, &here) != nil {
		return ""
	}
	for _, cand := range []string{"/dev/shm", "/run/shm", "/run/user/" + strconv.Itoa(os.Getuid()), "/var/tmp", "/tmp"} {
		var st syscall.Stat_t
		if syscall.Stat(cand, &st) != nil || st.Dev == here.Dev {
			continue
		}
		if td, err := os.MkdirTemp(cand, "verif-c19-"); err == nil {
			return td
		}
	}
	return ""
}

// c19Stale fills dir with stale, longer files of the names fitgen is about to write (what the
// directory of a package looks like when its profile is regenerated in place).
func c19Stale(dir string, files []string) {
	var sb bytes.Buffer
	sb.WriteString("package fit\n\n")
	for i := 0; sb.Len() < 700000; i++ {
		fmt.Fprintf(&sb, "// stale line %d of an earlier generation\nvar stale%d = [...]int{%d, %d}\n", i, i, i, i+1)
	}
	for _, f := range files {
		os.WriteFile(filepath.Join(dir, f), sb.Bytes(), 0o644)
	}
}

func c19Run(repo, fitgen, dir string, cfg c19Config) (string, c19Info) {
	var info c19Info
	src := filepath.Join(repo, "cmd/fitgen/internal/profile/testdata", cfg.version+".xlsx")
	data, err := os.ReadFile(src)
	if err != nil {
		return "INCONCLUSIVE: cannot read " + src, info
	}
	wb, err := ref.ReadXLSX(data)
	if err != nil {
		return "harness: cannot read workbook: " + err.Error(), info
	}
	rows, err := wb.ProfileRows()
	if err != nil {
		return "harness: " + err.Error(), info
	}
	types, err := wb.ProfileTypes()
	if err != nil {
		return "harness: " + err.Error(), info
	}
	disable := map[int]bool{}
	if cfg.variant >= 100 {
		// class-wide selection: every enabled row of one class
		kind := cfg.variant - 100
		if cfg.keep != "" {
			kind = 100
		}
		first, last := map[string]int{}, map[string]int{}
		for _, r := range rows {
			if r.Enabled && !r.IsSubfield {
				if _, ok := first[r.Mesg]; !ok {
					first[r.Mesg] = r.RowNum
				}
				last[r.Mesg] = r.RowNum
			}
		}
		for i, r := range rows {
			if !r.Enabled {
				continue
			}
			hit := false
			switch kind {
			case 0:
				hit = r.Type == "date_time"
			case 1:
				hit = r.Type == "local_date_time"
			case 2:
				hit = r.Array != ""
			case 3:
				hit = r.Type == "string"
			case 4:
				hit = strings.HasSuffix(r.Name, "_lat") || strings.HasSuffix(r.Name, "_long")
			case 5:
				hit = len(r.Components) > 0
			case 6:
				hit = r.IsSubfield
			case 7:
				hit = !r.IsSubfield && first[r.Mesg] == r.RowNum
			case 8:
				hit = !r.IsSubfield && last[r.Mesg] == r.RowNum
			case 9:
				hit = i%2 == 0
			case 10:
				hit = r.Type == "uint8" || r.Type == "uint16" || r.Type == "uint32"
			case 11:
				hit = r.Type == "sint8" || r.Type == "sint16" || r.Type == "sint32"
			case 12: // everything except timestamps: tiny profile
				hit = r.Type != "date_time"
			case 13: // every field of every second message
				hit = len(r.Mesg)%2 == 0
			case 14: // every scaled scalar row (scaled arrays stay)
				hit = r.Scale != "" && r.Array == "" && !r.IsSubfield
			case 15: // every scaled row
				hit = r.Scale != ""
			case 16: // every row without scale
				hit = r.Scale == ""
			case 100: // a single-message product: file_id plus one message, everything else off
				hit = r.Mesg != "file_id" && r.Mesg != cfg.keep
			}
			if hit {
				disable[r.RowNum] = true
			}
		}
	}
	if cfg.variant > 0 && cfg.variant < 100 {
		rng := lib.NewRand("C19."+cfg.version, uint64(cfg.variant))
		var cand []ref.ProfRow
		for _, r := range rows {
			if r.Enabled {
				cand = append(cand, r)
			}
		}
		n := 1 + rng.Intn(12)
		if cfg.variant%4 == 0 {
			n = 20 + rng.Intn(120)
		}
		for k := 0; k < n; k++ {
			disable[cand[rng.Intn(len(cand))].RowNum] = true
		}
	}
	if cfg.variant > 0 {
		c19Close(rows, disable)
		var patched int
		rngE := lib.NewRand("C19.empty."+cfg.version, uint64(cfg.variant))
		emptyRows := map[int]bool{}
		for r := range disable {
			emptyRows[r] = rngE.Chance(1, 2)
		}
		data, patched, err = patchWorkbook(data, wb.SheetFile["Messages"], disable, func(row int) bool { return emptyRows[row] })
		if err != nil {
			return "harness: cannot patch workbook: " + err.Error(), info
		}
		if patched != len(disable) {
			return fmt.Sprintf("harness: patched %d cells for %d rows", patched, len(disable)), info
		}
		// Re-read the variant independently: the model works from what fitgen will see.
		wb, err = ref.ReadXLSX(data)
		if err != nil {
			return "harness: cannot re-read variant: " + err.Error(), info
		}
		rows, _ = wb.ProfileRows()
		types, _ = wb.ProfileTypes()
	}
	for r := range disable {
		info.disabledRows = append(info.disabledRows, r)
	}
	sort.Ints(info.disabledRows)
	expect, _, err := c19Model(rows, types, nil)
	if err != nil {
		return "harness: " + err.Error(), info
	}
	maj, min := strings.Split(cfg.version, ".")[0], strings.Split(cfg.version, ".")[1]
	xlsxPath := filepath.Join(dir, "Profile.xlsx")
	os.WriteFile(xlsxPath, data, 0o644)
	// the archive sits under a directory whose name has a version-like part, a space and a dot:
	// only the file name says which SDK release this is
	zipDir := filepath.Join(dir, "fit-tools-1.2 (copy 3.14)")
	os.MkdirAll(zipDir, 0o755)
	// the release archive under the names it has in the wild: with and without the patch level,
	// with what a browser or a packager appends after the version
	zipName := []string{"FitSDKRelease_%s.zip", "FitSDKRelease_%s.00.zip", "FitSDKRelease_%s.00 (1).zip", "FitSDKRelease_%s.00_myproduct.zip", "FitSDKRelease_%s.00-edited.zip"}[(cfg.variant+len(cfg.version))%5]
	zipPath := filepath.Join(zipDir, fmt.Sprintf(zipName, cfg.version))
	{
		var zb bytes.Buffer
		zw := zip.NewWriter(&zb)
		// round 13: the archive holds more than the workbook - a directory entry and other files
		// of the release in front of it and, in two archives of three, what re-packing on a Mac
		// appends behind it: an AppleDouble companion `__MACOSX/.../._Profile.xlsx` that is no
		// workbook at all. The workbook of the release is the first entry of that name.
		zw.Create("FitSDKRelease_" + cfg.version + "/")
		if w, err := zw.Create("FitSDKRelease_" + cfg.version + "/Readme.txt"); err == nil {
			w.Write([]byte("FIT SDK " + cfg.version + "\n"))
		}
		w, _ := zw.Create("FitSDKRelease_" + cfg.version + "/Profile.xlsx")
		w.Write(data)
		if w, err := zw.Create("FitSDKRelease_" + cfg.version + "/c/fit.h"); err == nil {
			w.Write([]byte("/* fit.h */\n"))
		}
		if (cfg.variant+len(cfg.version))%3 != 0 {
			zw.Create("__MACOSX/")
			if w, err := zw.Create("__MACOSX/FitSDKRelease_" + cfg.version + "/._Profile.xlsx"); err == nil {
				w.Write(append([]byte{0x00, 0x05, 0x16, 0x07, 0x00, 0x02, 0x00, 0x00}, []byte("Mac OS X        \x00\x02\x00\x00\x00\x09ATTR com.apple.quarantine")...))
			}
		}
		zw.Close()
		os.WriteFile(zipPath, zb.Bytes(), 0o644)
	}
	files := []string{"messages.go", "types.go", "profile.go", "types_string.go"}
	if cfg.keep != "" {
		// light treatment: one run of the command, then a type check of the generated package with its support code
		out := filepath.Join(dir, "out")
		os.MkdirAll(out, 0o755)
		c19Stale(out, files) // regenerating in place: the directory holds an earlier, longer generation
		cmd := exec.Command(fitgen, "-sdk", cfg.version, xlsxPath, out)
		cmd.Dir = dir
		cmd.Env = append(os.Environ(), "GOMAXPROCS=3")
		if b, err := cmd.CombinedOutput(); err != nil {
			return fmt.Sprintf("fitgen failed on the single-message product file_id + %s: %v: %s", cfg.keep, err, tail(b, 500)), info
		}
		t0 := time.Now()
		msg := c19TypeCheck(repo, out)
		info.tcMillis = time.Since(t0).Milliseconds()
		if msg != "" {
			return fmt.Sprintf("single-message product file_id + %s: generated sources do not compile with the library's support code: %s", cfg.keep, msg), info
		}
		info.messages = 1
		return "", info
	}
	var first map[string][]byte
	for run := 0; run < 4; run++ {
		out := filepath.Join(dir, fmt.Sprintf("out%d", run))
		os.MkdirAll(out, 0o755)
		var cmd *exec.Cmd
		if run == 0 {
			cmd = exec.Command(fitgen, "-sdk", cfg.version, xlsxPath, out)
		} else if run == 1 {
			// with the command's debugging output on: what is logged is no part of what is written
			cmd = exec.Command(fitgen, "-verbose", "-sdk", cfg.version, xlsxPath, out)
		} else if run == 2 {
			// relative paths, resolved against the working directory
			rz, _ := filepath.Rel(dir, zipPath)
			ro, _ := filepath.Rel(dir, out)
			cmd = exec.Command(fitgen, rz, ro)
		} else {
			// the archive under another name: the release is then named by the -sdk flag alone
			renamed := filepath.Join(zipDir, "sdk download (1).zip")
			if zb, err := os.ReadFile(zipPath); err == nil {
				os.WriteFile(renamed, zb, 0o644)
			}
			sdkArg := cfg.version
			if cfg.variant%2 == 1 {
				sdkArg += ".00-rc1" // the release as its full name gives it; major and minor are what counts
			}
			cmd = exec.Command(fitgen, "-sdk", sdkArg, renamed, out)
		}
		cmd.Dir = dir
		// the four runs differ in what must not matter: run 1 regenerates in place (the output
		// directory already holds longer files of the same names), and the runs see 3, 1 and 7 Ps
		if run == 1 {
			c19Stale(out, files)
		}
		if p := []string{"", "3", "1", "7"}[run]; p != "" {
			cmd.Env = append(os.Environ(), "GOMAXPROCS="+p)
		}
		// ... and in where the process's temporary directory is: run 3 has its TMPDIR on another
		// file system than the output directory (scratch files there cannot be renamed into
		// place). (A TMPDIR that does not exist was tried and dropped: the stringer step loads
		// the package through the go tool, which itself needs a temporary directory.)
		if run == 3 {
			if td := c19OtherFS(out); td != "" {
				defer os.RemoveAll(td)
				if cmd.Env == nil {
					cmd.Env = os.Environ()
				}
				cmd.Env = append(cmd.Env, "TMPDIR="+td)
				info.otherFS = true
			}
		}
		b, err := cmd.CombinedOutput()
		if err != nil {
			return fmt.Sprintf("fitgen run %d (%s input) failed: %v: %s", run, map[bool]string{true: "xlsx", false: "zip"}[run < 2], err, tail(b, 500)), info
		}
		got := map[string][]byte{}
		for _, f := range files {
			fb, err := os.ReadFile(filepath.Join(out, f))
			if err != nil {
				return fmt.Sprintf("fitgen run %d wrote no %s", run, f), info
			}
			got[f] = fb
		}
		if first == nil {
			first = got
			continue
		}
		for _, f := range files {
			if !bytes.Equal(first[f], got[f]) {
				return fmt.Sprintf("%s differs between run 0 and run %d of the same workbook (%d vs %d bytes)", f, run, len(first[f]), len(got[f])), info
			}
		}
	}
	// A fifth run into a directory that looks like an earlier run of the same workbook which died
	// before its last file was complete: the sources that come first are there and identical,
	// types_string.go is half written (or, every other time, missing its second half and
	// carrying stale text instead). The run must produce what a fresh directory gets.
	if cfg.variant%3 == 0 {
		out := filepath.Join(dir, "out-partial")
		os.MkdirAll(out, 0o755)
		for _, f := range files {
			content := first[f]
			if f == "types_string.go" {
				content = append([]byte{}, content[:len(content)/2]...)
				if cfg.variant%2 == 1 {
					content = append(content, []byte("\n// stale remainder of an older generation\n")...)
				}
			}
			os.WriteFile(filepath.Join(out, f), content, 0o644)
		}
		cmd := exec.Command(fitgen, "-sdk", cfg.version, xlsxPath, out)
		cmd.Dir = dir
		if b, err := cmd.CombinedOutput(); err != nil {
			return fmt.Sprintf("fitgen failed when regenerating over a partially written earlier run: %v: %s", err, tail(b, 400)), info
		}
		for _, f := range files {
			fb, _ := os.ReadFile(filepath.Join(out, f))
			if !bytes.Equal(first[f], fb) {
				return fmt.Sprintf("%s differs from a fresh-directory run when the directory held a partially written earlier run of the same workbook (%d vs %d bytes)", f, len(fb), len(first[f])), info
			}
		}
	}
	for _, f := range []string{"messages.go", "types.go", "profile.go"} {
		if !bytes.Contains(first[f], []byte("// SDK Version: "+cfg.version+"\n")) {
			return fmt.Sprintf("%s does not declare '// SDK Version: %s'", f, cfg.version), info
		}
	}
	// Compile with the support code in a scratch module and dump.
	mod := filepath.Join(dir, "mod")
	os.MkdirAll(filepath.Join(mod, "cmd/dump"), 0o755)
	os.WriteFile(filepath.Join(mod, "go.mod"), []byte("module github.com/tormoder/fit\n\ngo 1.15\n"), 0o644)
	for _, f := range files {
		os.WriteFile(filepath.Join(mod, f), first[f], 0o644)
	}
	for _, f := range []string{"accumu.go", "pfield.go", "latlng.go", "time.go", "types_man.go", "verif_export.go"} {
		if err := copyFile(filepath.Join(mod, f), filepath.Join(repo, f)); err != nil {
			return "INCONCLUSIVE: support file missing: " + err.Error(), info
		}
	}
	tfiles, _ := filepath.Glob(filepath.Join(repo, "internal/types/*.go"))
	for _, f := range tfiles {
		if strings.HasSuffix(f, "_test.go") {
			continue
		}
		copyFile(filepath.Join(mod, "internal/types", filepath.Base(f)), f)
	}
	os.WriteFile(filepath.Join(mod, "cmd/dump/main.go"), []byte(c19Dump), 0o644)
	dump := filepath.Join(dir, "dump")
	build := exec.Command("go", "build", "-tags", "verif", "-o", dump, "./cmd/dump")
	build.Dir = mod
	build.Env = append(os.Environ(), "GOFLAGS=-mod=mod")
	if b, err := build.CombinedOutput(); err != nil {
		return fmt.Sprintf("generated sources do not compile with the library's support code: %s", tail(b, 700)), info
	}
	ob, err := exec.Command(dump).Output()
	if err != nil {
		return fmt.Sprintf("the program linked against the generated code fails: %v", err), info
	}
	var d struct {
		Major, Minor int
		Messages     []struct {
			Num     uint16
			Type    string
			Fields  []string
			Entries []struct {
				Slot, Num uint8
				Sindex    int
				Bits      uint16
				Length    uint8
			}
		}
	}
	if err := json.Unmarshal(ob, &d); err != nil {
		return "harness: bad dump: " + err.Error(), info
	}
	if strconv.Itoa(d.Major) != maj || strconv.Itoa(d.Minor) != strings.TrimLeft(min, "0") && !(min == "0" && d.Minor == 0) {
		return fmt.Sprintf("version constants %d.%d, requested %s", d.Major, d.Minor, cfg.version), info
	}
	byType := map[string]int{}
	for i, m := range d.Messages {
		byType[m.Type] = i
	}
	for _, e := range expect {
		i, ok := byType[e.Mesg]
		if !ok {
			return fmt.Sprintf("message %s of the workbook has no generated struct registered in the tables", e.Mesg), info
		}
		m := d.Messages[i]
		if len(m.Fields) != len(e.Fields) {
			return fmt.Sprintf("%s: %d struct fields generated, the workbook enables %d rows (generated %v)", e.Mesg, len(m.Fields), len(e.Fields), m.Fields), info
		}
		if len(m.Entries) != len(e.Fields) {
			return fmt.Sprintf("%s: %d lookup entries generated, the workbook enables %d rows", e.Mesg, len(m.Entries), len(e.Fields)), info
		}
		ent := map[int]int{}
		for k, en := range m.Entries {
			if en.Slot != en.Num {
				return fmt.Sprintf("%s: entry for field %d stored at slot %d", e.Mesg, en.Num, en.Slot), info
			}
			if _, dup := ent[int(en.Num)]; dup {
				return fmt.Sprintf("%s: two entries for field number %d", e.Mesg, en.Num), info
			}
			ent[int(en.Num)] = k
		}
		for k, f := range e.Fields {
			if m.Fields[k] != f.Name {
				return fmt.Sprintf("%s: struct field %d is %s, the %d-th enabled row is %s", e.Mesg, k, m.Fields[k], k, f.Name), info
			}
			ei, ok := ent[f.Num]
			if !ok {
				return fmt.Sprintf("%s: no lookup entry for enabled field %s (number %d)", e.Mesg, f.Name, f.Num), info
			}
			en := m.Entries[ei]
			if en.Sindex != k || en.Bits != f.Bits {
				return fmt.Sprintf("%s.%s (field %d): entry {sindex %d, type word %#x}, the workbook row gives {sindex %d, type word %#x}", e.Mesg, f.Name, f.Num, en.Sindex, en.Bits, k, f.Bits), info
			}
			info.fields++
		}
		info.messages++
	}
	if len(d.Messages) != len(expect) {
		return fmt.Sprintf("%d messages registered in the generated tables, the workbook has %d", len(d.Messages), len(expect)), info
	}
	return "", info
}

var (
	c19TCmu  sync.Mutex
	c19Imp   types.Importer
	c19Fset  = token.NewFileSet()
	c19Types *types.Package
)

type c19Importer struct{ std types.Importer }

func (i c19Importer) Import(path string) (*types.Package, error) {
	if path == "github.com/tormoder/fit/internal/types" {
		return c19Types, nil
	}
	return i.std.Import(path)
}

// c19TypeCheck type-checks the generated files in dir together with the library's support files
// (the compiler's front end: unused imports, undefined names, type errors), without building.
func c19TypeCheck(repo, dir string) string {
	c19TCmu.Lock()
	defer c19TCmu.Unlock()
	if c19Imp == nil {
		c19Imp = importer.ForCompiler(c19Fset, "source", nil)
	}
	parse := func(paths []string) ([]*ast.File, error) {
		var fs []*ast.File
		for _, p := range paths {
			f, err := parser.ParseFile(c19Fset, p, nil, 0)
			if err != nil {
				return nil, err
			}
			fs = append(fs, f)
		}
		return fs, nil
	}
	if c19Types == nil {
		tfiles, _ := filepath.Glob(filepath.Join(repo, "internal/types/*.go"))
		var keep []string
		for _, f := range tfiles {
			if !strings.HasSuffix(f, "_test.go") {
				keep = append(keep, f)
			}
		}
		fs, err := parse(keep)
		if err != nil {
			return "harness: " + err.Error()
		}
		pkg, err := (&types.Config{Importer: c19Imp}).Check("github.com/tormoder/fit/internal/types", c19Fset, fs, nil)
		if err != nil {
			return "harness: internal/types: " + err.Error()
		}
		c19Types = pkg
	}
	var paths []string
	for _, f := range []string{"messages.go", "types.go", "profile.go", "types_string.go"} {
		paths = append(paths, filepath.Join(dir, f))
	}
	for _, f := range []string{"accumu.go", "pfield.go", "latlng.go", "time.go", "types_man.go"} {
		paths = append(paths, filepath.Join(repo, f))
	}
	fs, err := parse(paths)
	if err != nil {
		return err.Error()
	}
	var errs []string
	conf := types.Config{Importer: c19Importer{c19Imp}, Error: func(e error) {
		if len(errs) < 5 {
			errs = append(errs, e.Error())
		}
	}}
	conf.Check("github.com/tormoder/fit", c19Fset, fs, nil)
	return strings.Join(errs, "; ")
}
