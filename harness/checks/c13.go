package checks

import (
	"fmt"

	"verifharness/lib"
	"verifharness/ref"
)

func init() { registrars = append(registrars, registerC13) }

func registerC13() {
	lib.Register(&lib.Check{
		ID:    "C13",
		Level: "exploration",
		Rule: "PRNG interleavings of definition and data records over up to 16 local message types: redefinitions switching message, field list, sizes and byte order, the same " +
			"message defined differently in two slots, compressed-timestamp records addressing slots 0-3 while other slots hold other definitions, developer-data definitions, and " +
			"(1.5% per step) a data record on an undefined slot, which must be rejected with the records before it kept; every message carries a unique serial number; family long: streams of 1500-5000 records with 50% redefinitions of up to 12 fields (thousands of definitions and more than 10000 field definitions in one file) in which early definitions stay in use to the end; family chain-slots: chains of 2-3 files through DecodeChained in which a later file uses a " +
			"local type that only an earlier file defined (definitions end with their file: must be rejected) or redefines the earlier file's slots differently; near-copy redefinitions include moving one entry across the boundary between field definitions and developer field descriptions with its three bytes unchanged; a case is " +
			"non-trivial when at least two slots were live and one redefinition or an undefined-slot record occurred; distinct by stream digest",
		Assume: []string{
			"struct-field positions come from the hook table (C15)",
			"the timestamp a compressed header gives a record is C12's subject and is not compared here",
		},
		MinNontrivial: 500,
		Families: []lib.Family{
			{Name: "interleave", N: func(t string) uint64 { return tierN(t, 100000, 2000000) }, Run: c13Case},
			{Name: "long", N: func(t string) uint64 { return tierN(t, 250, 10000) }, Run: c13Long},
			{Name: "chain-slots", N: func(t string) uint64 { return tierN(t, 10000, 300000) }, Run: c13Chain},
		},
	})
}

func c13Case(c *lib.Ctx, idx uint64) {
	rng := lib.NewRand("C13.interleave", idx)
	ft := lib.FileTypes[idx%uint64(len(lib.FileTypes))].Type
	o := lib.GenOpts{
		FileType:       ft,
		Records:        10 + rng.Intn(50),
		Locals:         2 + rng.Intn(15),
		Redefine:       10 + rng.Intn(30),
		Narrow:         8,
		BigEndian:      50,
		Unknown:        20,
		Compressed:     25,
		Serial:         true,
		MaxFields:      6,
		UndefinedLocal: 15,
		RepeatPrev:     8,
		DevDescribe:    30,
		ReservedBits:   4,
		NoTimeZero:     true,
		ZeroFieldDefs:  3,
		RedefSimilar:   30,
	}
	if !rng.Chance(1, 4) {
		o.Mesgs = lib.HostedMesgs(ft)
	}
	g := lib.NewPlanGen(rng, o)
	plan := g.Fill()
	b := plan.Bytes()
	c.SetInflight(b)
	ex, err := lib.Expect(plan, lib.ExpectOpts{})
	if err != nil {
		c.Violation(b, "harness: model failed: %v", err)
		return
	}
	// the decode options rotate through the cases (none, logger, unknown lists, all, in every
	// order): which definition a record is read with does not depend on them
	optMask := int(idx / 3 % 8)
	f, derr, out := lib.GuardedDecode(b, optionList(optMask, &countingLogger{}, idx)...)
	c.Eval()
	if out.Panicked || out.Hang {
		c.Violation(b, "Decode (option set %d) panicked/hung: %s\n%s", optMask, out.Panic, out.Stack)
		return
	}
	c.Count(fmt.Sprintf("decodes_with_option_set_%d", optMask), 1)
	// Skip: component destinations (C18) and the timestamp of compressed records (C12).
	cs := compSkip(plan, ex)
	prof := lib.Profile()
	type key struct {
		slot string
		idx  int
	}
	compressed := map[key]bool{}
	for _, m := range ex.Meta {
		if m.Compressed && m.Hosted {
			compressed[key{m.Slot, m.Index}] = true
		}
	}
	skip := func(slot string, g uint16, idx int, si int) bool {
		if cs(slot, g, idx, si) {
			return true
		}
		if pf := prof.Field(g, 253); pf != nil && pf.Sindex == si {
			// Single-valued slots: the last message may or may not be the compressed one; skip conservatively.
			if compressed[key{slot, idx}] {
				return true
			}
			for _, s := range ex.Content.Slots {
				if s.Name == slot && s.Single {
					return true
				}
			}
		}
		return false
	}
	live, redefs := planSlotStats(plan)
	if ex.Fail {
		c.Count("undefined_slot_streams", 1)
		if derr == nil {
			c.Violation(b, "Decode accepted a data record (record %d) whose local message type has no definition", ex.FailAt)
			return
		}
		got := lib.FileContent(f)
		if got == nil {
			c.Violation(b, "Decode returned no File with the error although %d records were complete before the undefined local type", ex.FailAt)
			return
		}
		if ex.FailAt < 2 {
			// not even the leading file_id record was complete: what the File's file_id looks
			// like then is not the property's subject; no message may be held
			if !slotsEmpty(got) {
				c.Violation(b, "the File returned with the error holds messages although the first data record already named an undefined local type")
				return
			}
			c.Count("undefined_slot_in_first_data_record", 1)
		} else if diffs := lib.CompareContent(ex.Content, got, lib.CompareOpts{Skip: skip}); len(diffs) > 0 {
			c.Violation(b, "partial File before the undefined-slot record differs: %s", lib.DiffsString(diffs, 4))
			return
		}
		c.Nontrivial(b)
		c.Sample("undefined-slot-stream", 1, map[string]interface{}{"records": len(plan.Records), "fails_at_record": ex.FailAt, "error": derr.Error()})
		return
	}
	if derr != nil {
		c.Violation(b, "Decode rejected a well-formed stream: %v", derr)
		return
	}
	got := lib.FileContent(f)
	if diffs := lib.CompareContent(ex.Content, got, lib.CompareOpts{Header: true, Skip: skip}); len(diffs) > 0 {
		c.Violation(b, "records decoded with the wrong definition or disturbed by another slot: %s", lib.DiffsString(diffs, 4))
		return
	}
	c.Count(fmt.Sprintf("live_slots_%s", bucket(live)), 1)
	c.Count("redefinitions", int64(redefs))
	c.Count("compressed_records", int64(len(compressed)))
	if live >= 2 && redefs >= 1 {
		c.Nontrivial(b)
	}
	c.Sample("interleaving", 2, map[string]interface{}{"records": len(plan.Records), "live_slots": live, "redefinitions": redefs, "bytes": len(b)})
}

// planSlotStats returns the number of distinct slots defined and the number
// of redefinitions of a slot already in use.
func planSlotStats(p *ref.Plan) (live, redefs int) {
	var seen [16]bool
	for i := range p.Records {
		r := &p.Records[i]
		if !r.IsDef {
			continue
		}
		if seen[r.Local] {
			redefs++
		} else {
			seen[r.Local] = true
			live++
		}
	}
	return
}

// c13Chain: definitions belong to one file. In a chain, a later file that uses a local type only an
// earlier file defined must be rejected; a later file that defines its own slots must decode by them.
func c13Chain(c *lib.Ctx, idx uint64) {
	rng := lib.NewRand("C13.chain-slots", idx)
	ftA := lib.FileTypes[idx%uint64(len(lib.FileTypes))].Type
	ftB := lib.FileTypes[(idx/17)%uint64(len(lib.FileTypes))].Type
	mk := func(ft byte, locals int) *ref.Plan {
		o := lib.GenOpts{FileType: ft, Mesgs: lib.HostedMesgs(ft), Records: 5 + rng.Intn(20), Locals: locals, Redefine: 15, BigEndian: 50, Unknown: 15, Serial: true, MaxFields: 4}
		return lib.NewPlanGen(rng, o).Fill()
	}
	a := mk(ftA, 8+rng.Intn(8))
	b := mk(ftB, 1+rng.Intn(4))
	exA, errA := lib.Expect(a, lib.ExpectOpts{})
	if errA != nil || exA.Fail {
		return
	}
	// Slots A defined and B did not.
	var defA, defB [16]bool
	for _, r := range a.Records {
		if r.IsDef {
			defA[r.Local] = true
		}
	}
	for _, r := range b.Records {
		if r.IsDef {
			defB[r.Local] = true
		}
	}
	var only []byte
	for s := 0; s < 16; s++ {
		if defA[s] && !defB[s] {
			only = append(only, byte(s))
		}
	}
	intruder := idx%2 == 0 && len(only) > 0
	failAt := -1
	if intruder {
		slot := only[rng.Intn(len(only))]
		// the data record A would have accepted on that slot
		var lastDef *ref.Record
		for i := range a.Records {
			if a.Records[i].IsDef && a.Records[i].Local == slot {
				lastDef = &a.Records[i]
			}
		}
		rec := ref.Record{Local: slot}
		for _, f := range lastDef.Fields {
			rec.Data = append(rec.Data, rng.Bytes(int(f.Size)))
		}
		for _, d := range lastDef.Dev {
			rec.Data = append(rec.Data, rng.Bytes(int(d.Size)))
		}
		pos := 2 + rng.Intn(len(b.Records)-1)
		b.Records = append(b.Records[:pos], append([]ref.Record{rec}, b.Records[pos:]...)...)
		failAt = pos
	}
	chain := append(append([]byte{}, a.Bytes()...), b.Bytes()...)
	c.SetInflight(chain)
	res := lib.CallResult{}
	o := lib.Guard(func() { res = lib.Call("DecodeChained", lib.NewReader(chain, lib.Chunker{Kind: "whole"})) })
	c.Eval()
	if o.Panicked || o.Hang {
		c.Violation(chain, "DecodeChained panicked/hung: %s", o.Panic)
		return
	}
	if intruder {
		c.Count("chains_with_slot_only_earlier_file_defined", 1)
		if res.Err == nil {
			c.Violation(chain, "file 2 of a chain uses local type %d in record %d, which only file 1 defined: DecodeChained accepted it (definitions must end with their file)", b.Records[failAt].Local, failAt)
			return
		}
		c.Nontrivial(chain)
		return
	}
	if res.Err != nil || len(res.Files) != 2 {
		c.Violation(chain, "DecodeChained over two well-formed files: %d files, error %v", len(res.Files), res.Err)
		return
	}
	for i, p := range []*ref.Plan{a, b} {
		ex, err := lib.Expect(p, lib.ExpectOpts{})
		if err != nil || ex.Fail {
			return
		}
		got := lib.FileContent(res.Files[i])
		if diffs := lib.CompareContent(ex.Content, got, lib.CompareOpts{Header: true, Skip: compSkip(p, ex)}); len(diffs) > 0 {
			c.Violation(chain, "file %d of a chain is decoded with definitions that are not its own: %s", i+1, lib.DiffsString(diffs, 3))
			return
		}
	}
	c.Count("chains_with_independent_slots", 1)
	c.Nontrivial(chain)
}

// c13Long: very many redefinitions in one file; slots defined early and never redefined must still
// decode by their definition at the very end.
func c13Long(c *lib.Ctx, idx uint64) {
	rng := lib.NewRand("C13.long", idx)
	ft := lib.FileTypes[idx%uint64(len(lib.FileTypes))].Type
	o := lib.GenOpts{FileType: ft, Mesgs: lib.HostedMesgs(ft), Records: 40, Locals: 16, Redefine: 5, BigEndian: 50, Serial: true, MaxFields: 12, Unknown: 10}
	g := lib.NewPlanGen(rng, o)
	g.Fill() // slots 0..15 get their early definitions
	// churn on slots 0-7 only; slots 8-15 keep their early definitions
	g.O.Locals = 8
	g.O.Redefine = 50
	g.O.Records = 1500 + rng.Intn(3500)
	g.Fill()
	// and now data on every slot again
	g.O.Locals = 16
	g.O.Redefine = 0
	g.O.Records = 60
	plan := g.Fill()
	ndefs, nfd := 0, 0
	for _, r := range plan.Records {
		if r.IsDef {
			ndefs++
			nfd += len(r.Fields)
		}
	}
	ex, _, ok := checkPlanDecode(c, plan, "long_", true)
	if !ok || ex == nil {
		return
	}
	c.Count("long_streams", 1)
	c.Count("long_definitions", int64(ndefs))
	c.Count("long_field_definitions", int64(nfd))
	if nfd > 4096 {
		c.Count("long_streams_with_more_than_4096_field_definitions", 1)
	}
}
