package checks

import (
	"fmt"

	"github.com/tormoder/fit"

	"verifharness/lib"
	"verifharness/ref"
)

func init() { registrars = append(registrars, registerC02) }

// compSkip returns a Skip function that leaves out the component
// destinations of messages that carry a component source on the wire
// (component expansion is property C18's subject).
func compSkip(p *ref.Plan, ex *lib.Expectation) func(slot string, g uint16, idx int, sindex int) bool {
	prof := lib.Profile()
	// slot/idx -> has source
	type key struct {
		slot string
		idx  int
	}
	has := map[key]bool{}
	var defs [16]*ref.Record
	mi := 0
	for i := range p.Records {
		r := &p.Records[i]
		if r.IsDef {
			defs[r.Local] = r
			continue
		}
		d := defs[r.Local]
		if d == nil || !prof.Known[d.Global] {
			continue
		}
		for mi < len(ex.Meta) && ex.Meta[mi].Seq < i {
			mi++
		}
		if mi >= len(ex.Meta) || ex.Meta[mi].Seq != i {
			continue
		}
		meta := ex.Meta[mi]
		if !ref.IsComponentMesg(d.Global) {
			continue
		}
		srcs := ref.CompSources(d.Global)
		for _, f := range d.Fields {
			for _, s := range srcs {
				if f.Num == s {
					has[key{meta.Slot, meta.Index}] = true
				}
			}
		}
	}
	return func(slot string, g uint16, idx int, sindex int) bool {
		if !ref.IsComponentMesg(g) {
			return false
		}
		hs := has[key{slot, idx}]
		// single slots: index 0
		if !hs {
			return false
		}
		for _, n := range ref.CompDests(g) {
			if pf := prof.Field(g, n); pf != nil && pf.Sindex == sindex {
				return true
			}
		}
		return false
	}
}

// compressedTimestampSkip leaves out the timestamp field of records that had a compressed-timestamp
// header and no timestamp field on the wire (what the header then yields is C12's subject). When
// field 253 IS on the wire of such a record, its wire value must win and is compared.
func compressedTimestampSkip(p *ref.Plan, ex *lib.Expectation) func(slot string, g uint16, idx int, sindex int) bool {
	prof := lib.Profile()
	type key struct {
		slot string
		idx  int
	}
	skip := map[key]bool{}
	single := map[string]bool{}
	var defs [16]*ref.Record
	mi := 0
	for i := range p.Records {
		r := &p.Records[i]
		if r.IsDef {
			defs[r.Local] = r
			continue
		}
		for mi < len(ex.Meta) && ex.Meta[mi].Seq < i {
			mi++
		}
		if mi >= len(ex.Meta) || ex.Meta[mi].Seq != i || !r.Compressed {
			continue
		}
		d := defs[r.Local]
		has := false
		if d != nil {
			for _, f := range d.Fields {
				if f.Num == 253 {
					has = true
				}
			}
		}
		if !has {
			skip[key{ex.Meta[mi].Slot, ex.Meta[mi].Index}] = true
		}
	}
	for _, s := range ex.Content.Slots {
		if s.Single {
			single[s.Name] = true
		}
	}
	return func(slot string, g uint16, idx int, si int) bool {
		pf := prof.Field(g, 253)
		if pf == nil || pf.Sindex != si {
			return false
		}
		return skip[key{slot, idx}] || single[slot] || slot == "FileId"
	}
}

// countPlanCoverage bumps the per-field and per-type counters for a plan.
func countPlanCoverage(c *lib.Ctx, p *ref.Plan, prefix string) (nontrivial int) {
	prof := lib.Profile()
	var defs [16]*ref.Record
	for i := range p.Records {
		r := &p.Records[i]
		if r.IsDef {
			defs[r.Local] = r
			continue
		}
		d := defs[r.Local]
		if d == nil || !prof.Known[d.Global] {
			continue
		}
		for k, f := range d.Fields {
			pf := prof.Field(d.Global, f.Num)
			if pf == nil {
				continue
			}
			db, _ := ref.BaseByCode(f.Base)
			pb := ref.BaseTypes[pf.Base]
			c.Count(fmt.Sprintf("%sfield:%d.%d", prefix, d.Global, f.Num), 1)
			c.Count(fmt.Sprintf("%stype:%s<-%s/arch%d", prefix, pb.Name, db.Name, d.Arch), 1)
			if db.Size < pb.Size && pf.Kind == ref.KNative && pb.Code != 7 {
				c.Count(prefix+"narrow_comparisons", 1)
				if db.Signed && len(r.Data[k]) > 0 {
					_, s := refScalar(r.Data[k], db, d.Arch)
					if s < 0 {
						c.Count(prefix+"narrow_negative_comparisons", 1)
					}
				}
			}
			nontrivial++
		}
	}
	return
}

func refScalar(data []byte, bt ref.BaseType, arch byte) (uint64, int64) {
	u := ref.Get(data, bt.Size, arch)
	if bt.Signed && bt.Integer {
		return u, ref.SignExtend(u, bt.Size)
	}
	return u, int64(u)
}

func registerC02() {
	lib.Register(&lib.Check{
		ID:    "C02",
		Level: "exploration",
		Rule: "model streams: PRNG-determined plans (file type cycles over the 17 containers; definitions = random subsets/permutations of profile fields with compatible " +
			"definition types incl. narrower integer types, over-long arrays and strings, both byte orders, interleaved unknown fields/messages/developer fields) and the device " +
			"corpus parsed by the independent grammar parser; family large: streams of 300-2500 records (10-120 KB) so that every kind of field, " +
			"definition and skipped block straddles the decoder's 4096-byte buffer refills at all alignments, read through short-reading chunkers; family order-pairs: for every scalar profile field (time fields are C12's) and every base type byte and size 1..8 the same integer is written once little endian and once big endian (bytes reversed): both are rejected, or both decode to the same message; family chains: two to four model streams back to back through DecodeChained (a third of them with decode options), every file compared with the values of its own bytes, compressed timestamps and local times included; a case is non-trivial when Decode accepted it and at least one known field was compared against the model; distinct by stream digest",
		Assume: []string{
			"which struct field a (message, field number) pair lands in is taken from the hook table (its correctness is C15's subject)",
			"narrow definitions never carry the narrow type's own invalid value (its meaning is not defined by the statement)",
			"component destinations are not compared when a source is on the wire (C18)",
		},
		MinNontrivial: 200,
		Families386:   []string{"model"},
		Families: []lib.Family{
			{Name: "model", N: func(t string) uint64 { return tierN(t, 160000, 3000000) }, Run: c02Model},
			{Name: "device", N: func(t string) uint64 { return uint64(len(Corpus())) }, Run: c02Device},
			{Name: "large", N: func(t string) uint64 { return tierN(t, 1500, 60000) }, Run: c02Large},
			{Name: "chains", N: func(t string) uint64 { return tierN(t, 12000, 300000) }, Run: c02Chain},
			{Name: "order-pairs", N: func(t string) uint64 { return uint64(len(orderPairFields(false))) }, Run: func(c *lib.Ctx, idx uint64) { orderPairs(c, orderPairFields(false)[idx]) }},
		},
		Finish: func(c *lib.Ctx, cov map[string]interface{}) {
			fields, total := 0, 0
			prof := lib.Profile()
			for _, pf := range prof.Fields {
				total++
				if c.Res.Counters[fmt.Sprintf("field:%d.%d", pf.Mesg, pf.Num)] > 0 {
					fields++
				}
			}
			cov["profile_fields_compared"] = fields
			cov["profile_fields_total"] = total
		},
	})
}

func c02Opts(rng *lib.Rand, idx uint64) lib.GenOpts {
	ft := lib.FileTypes[idx%uint64(len(lib.FileTypes))].Type
	o := lib.GenOpts{
		FileType:      ft,
		Records:       6 + rng.Intn(14),
		Locals:        1 + rng.Intn(4),
		Redefine:      12,
		Narrow:        15,
		BigEndian:     50,
		Unknown:       30,
		BigFileId:     4,
		RepeatPrev:    8,
		DevDescribe:   30,
		Unknown253:    25,
		ReservedBits:  4,
		ZeroFieldDefs: 3,
		RedefSimilar:  30,
		// some records behind compressed-timestamp headers: a wire field must decode to its wire
		// value whatever the record header says
		Compressed: 10,
		NoTimeZero: true,
		Monster:    2,
		TimeModel:  40,
	}
	// Draw mostly from what the container hosts, sometimes from everything.
	if !rng.Chance(1, 5) {
		o.Mesgs = lib.HostedMesgs(ft)
	}
	return o
}

func c02Model(c *lib.Ctx, idx uint64) {
	rng := lib.NewRand("C02.model", idx)
	o := c02Opts(rng, idx)
	g := lib.NewPlanGen(rng, o)
	plan := g.Fill()
	checkPlanDecode(c, plan, "", true, true)
}

// c02Chain: two to four model streams back to back, decoded by DecodeChained: every file of the
// chain must carry the values its own bytes denote - what an earlier file of the chain held
// (time reference, definitions, byte order, unknown-item state) is not part of a later file.
func c02Chain(c *lib.Ctx, idx uint64) {
	rng := lib.NewRand("C02.chains", idx)
	n := 2 + rng.Intn(3)
	var plans []*ref.Plan
	var exs []*lib.Expectation
	var chain []byte
	for k := 0; k < n; k++ {
		o := c02Opts(rng, idx*7+uint64(k))
		o.UndefinedLocal = 0
		if k > 0 && rng.Chance(1, 2) {
			// a later file that starts with records before its own first timestamp
			o.TimeModel = 100
			o.Compressed = 40
		}
		p := lib.NewPlanGen(rng, o).Fill()
		ex, err := lib.Expect(p, lib.ExpectOpts{})
		if err != nil {
			c.Violation(p.Bytes(), "harness: model failed on its own plan: %v", err)
			return
		}
		if ex.Fail {
			k--
			continue
		}
		plans = append(plans, p)
		exs = append(exs, ex)
		chain = append(chain, p.Bytes()...)
	}
	c.SetInflight(chain)
	var files []*fit.File
	var cerr error
	var opts []fit.DecodeOption
	if idx%3 == 1 {
		opts = optionList(int(idx/3%8), &countingLogger{}, idx)
	}
	o := lib.Guard(func() {
		files, cerr = fit.DecodeChained(lib.NewReader(chain, lib.Chunker{Kind: []string{"whole", "rand", "one"}[idx%3], Size: 700, R: rng}), opts...)
	})
	c.Eval()
	if o.Panicked || o.Hang {
		c.Violation(chain, "DecodeChained panicked/hung on %d well-formed streams back to back: %s", n, o.Panic)
		return
	}
	if cerr != nil || len(files) != len(plans) {
		c.Violation(chain, "DecodeChained over %d well-formed streams returned %d files, error %v", len(plans), len(files), cerr)
		return
	}
	for k, p := range plans {
		cs := compSkip(p, exs[k])
		diffs := lib.CompareContent(exs[k].Content, lib.FileContent(files[k]), lib.CompareOpts{Header: true, Skip: cs})
		if len(diffs) > 0 {
			c.Violation(chain, "file %d of a chain of %d: decoded content differs from the wire values of that file: %s", k+1, len(plans), lib.DiffsString(diffs, 4))
			return
		}
	}
	c.Count(fmt.Sprintf("chains_of_%d", len(plans)), 1)
	c.Nontrivial(chain)
}

// checkPlanDecode decodes the plan's bytes and compares the result with the
// model. Shared by the checks whose oracle is the reference interpretation.
func checkPlanDecode(c *lib.Ctx, plan *ref.Plan, prefix string, skipComp bool, skipCompressedTS ...bool) (*lib.Expectation, *lib.Content, bool) {
	b := plan.Bytes()
	c.SetInflight(b)
	ex, err := lib.Expect(plan, lib.ExpectOpts{})
	if err != nil {
		c.Violation(b, "harness: model failed on its own plan: %v", err)
		return nil, nil, false
	}
	f, derr, o := lib.GuardedDecode(b)
	c.Eval()
	if o.Panicked || o.Hang {
		c.Violation(b, "Decode panicked/hung on a well-formed stream: %s\n%s", o.Panic, o.Stack)
		return ex, nil, false
	}
	if ex.Fail {
		if derr == nil {
			c.Violation(b, "Decode accepted a stream whose record %d uses an undefined local message type", ex.FailAt)
			return ex, nil, false
		}
		return ex, lib.FileContent(f), false
	}
	if derr != nil {
		c.Violation(b, "Decode rejected a well-formed stream with compatible definitions: %v", derr)
		return ex, nil, false
	}
	got := lib.FileContent(f)
	co := lib.CompareOpts{Header: true}
	if skipComp {
		cs := compSkip(plan, ex)
		co.Skip = cs
		if len(skipCompressedTS) > 0 && skipCompressedTS[0] {
			ts := compressedTimestampSkip(plan, ex)
			co.Skip = func(slot string, g uint16, idx int, si int) bool { return cs(slot, g, idx, si) || ts(slot, g, idx, si) }
		}
	}
	diffs := lib.CompareContent(ex.Content, got, co)
	if len(diffs) > 0 {
		c.Violation(b, "decoded content differs from the wire values: %s", lib.DiffsString(diffs, 4))
		return ex, got, false
	}
	n := countPlanCoverage(c, plan, prefix)
	if n > 0 {
		c.Nontrivial(b)
	}
	c.Sample("model-stream", 3, map[string]interface{}{"bytes": len(b), "records": len(plan.Records), "hex_prefix": fmt.Sprintf("%x", b[:minInt(len(b), 64)])})
	return ex, got, true
}

func minInt(a, b int) int {
	if a < b {
		return a
	}
	return b
}

// c02Device: real firmware output judged by the independent parser.
func c02Device(c *lib.Ctx, idx uint64) {
	files := Corpus()
	cf := files[idx]
	parsed, err := ref.Parse(cf.Data, ref.ParseOptions{})
	if err != nil {
		c.Count("device_skipped_unparseable", 1)
		return
	}
	frame := cf.Data[:parsed.FrameLen]
	// Keep only the records whose definitions are compatible (as defined in
	// DESIGN §2); a file with any incompatible definition for a known field
	// is skipped as a whole, because the library may legitimately reject it.
	prof := lib.Profile()
	for i := range parsed.Records {
		r := &parsed.Records[i]
		if !r.IsDef || !prof.Known[r.Global] {
			continue
		}
		seen := map[byte]bool{}
		for _, f := range r.Fields {
			pf := prof.Field(r.Global, f.Num)
			if seen[f.Num] {
				c.Count("device_skipped_duplicate_field", 1)
				return
			}
			seen[f.Num] = true
			if _, ok := ref.BaseByCode(f.Base); !ok {
				c.Count("device_skipped_incompatible", 1)
				return
			}
			if pf == nil {
				continue
			}
			if !compatibleDef(pf, f) {
				c.Count("device_skipped_incompatible", 1)
				c.Count("device_incompatible:"+cf.Path, 1)
				return
			}
		}
	}
	plan := &ref.Plan{HeaderSize: parsed.HeaderSize, Proto: parsed.Proto, ProfVer: parsed.ProfVer, Records: parsed.Records, HeaderCRCZero: parsed.HeaderSize == 14 && parsed.HeaderCRC == 0}
	if string(plan.Bytes()) != string(frame) {
		c.Violation(frame, "harness: re-serialised device file %s differs from the original", cf.Path)
		return
	}
	// Device files: timestamps and components are other properties'
	// subjects but the model implements them; differences there are
	// reported by C12/C18. Here destinations are skipped.
	b := frame
	c.SetInflight(b)
	ex, err := lib.Expect(plan, lib.ExpectOpts{})
	if err != nil || ex.Fail {
		c.Count("device_skipped_model", 1)
		return
	}
	f, derr, o := lib.GuardedDecode(b)
	c.Eval()
	if o.Panicked || o.Hang {
		c.Violation(b, "Decode panicked on device file %s: %s", cf.Path, o.Panic)
		return
	}
	if derr != nil {
		c.Violation(b, "Decode rejected device file %s that the independent parser accepts and whose definitions are compatible: %v", cf.Path, derr)
		return
	}
	got := lib.FileContent(f)
	diffs := lib.CompareContent(ex.Content, got, lib.CompareOpts{Header: true, Skip: compSkip(plan, ex)})
	if len(diffs) > 0 {
		c.Violation(b, "device file %s: decoded content differs from the wire values: %s", cf.Path, lib.DiffsString(diffs, 4))
		return
	}
	n := countPlanCoverage(c, plan, "")
	c.Count("device_files_compared", 1)
	c.Count("device_field_comparisons", int64(n))
	c.Nontrivial(b)
	c.Sample("device-file", 2, map[string]interface{}{"path": cf.Path, "records": len(plan.Records), "field_comparisons": n})
}

// compatibleDef is the harness's definition of "compatible with the profile"
// (DESIGN §2), written independently of the decoder's validation.
func compatibleDef(pf *ref.PField, f ref.FieldDef) bool {
	db, ok := ref.BaseByCode(f.Base)
	if !ok {
		return false
	}
	pb := ref.BaseTypes[pf.Base]
	size := int(f.Size)
	if pb.Code == 0x07 {
		return db.Code == 0x07
	}
	if pf.Array && pf.Kind == ref.KNative {
		if db.Code != pb.Code {
			return false
		}
		return size >= pb.Size && size%pb.Size == 0
	}
	if db.Code == pb.Code {
		return size == pb.Size
	}
	if size != db.Size {
		return false
	}
	if lib.UnsignedLike(db) && lib.UnsignedLike(pb) && db.Size <= pb.Size {
		return true
	}
	return db.Integer && pb.Integer && db.Signed && pb.Signed && db.Size < pb.Size
}

// c02Large: long streams through chunked readers: values must not depend on where the decoder's
// internal buffer happens to be refilled.
func c02Large(c *lib.Ctx, idx uint64) {
	rng := lib.NewRand("C02.large", idx)
	o := c02Opts(rng, idx)
	o.Records = 300 + rng.Intn(2200)
	o.MaxFields = 10
	o.Monster = 6
	g := lib.NewPlanGen(rng, o)
	plan := g.Fill()
	b := plan.Bytes()
	c.SetInflight(b)
	ex, err := lib.Expect(plan, lib.ExpectOpts{})
	if err != nil || ex.Fail {
		c.Violation(b, "harness: model failed: %v", err)
		return
	}
	chs := []lib.Chunker{{Kind: "whole"}, {Kind: "rand", Size: 700, R: rng}, {Kind: "fixed", Size: 4095}, {Kind: "fixed", Size: 4097}, {Kind: "rand", Size: 9000, R: rng, Zero: true}, {Kind: "fixed", Size: 1000}}
	ch := chs[idx%uint64(len(chs))]
	var res lib.CallResult
	out := lib.Guard(func() { res = lib.Call("Decode", lib.NewReader(b, ch)) })
	c.Eval()
	if out.Panicked || out.Hang {
		c.Violation(b, "Decode (%s reads) panicked/hung on a long well-formed stream: %s", ch, out.Panic)
		return
	}
	if res.Err != nil {
		c.Violation(b, "Decode (%s reads) rejected a long well-formed stream of %d bytes: %v", ch, len(b), res.Err)
		return
	}
	got := lib.FileContent(res.File)
	cs, ts := compSkip(plan, ex), compressedTimestampSkip(plan, ex)
	if diffs := lib.CompareContent(ex.Content, got, lib.CompareOpts{Header: true, Skip: func(slot string, g uint16, idx int, si int) bool { return cs(slot, g, idx, si) || ts(slot, g, idx, si) }}); len(diffs) > 0 {
		c.Violation(b, "long stream (%d bytes, %s reads): decoded content differs from the wire values: %s", len(b), ch, lib.DiffsString(diffs, 4))
		return
	}
	countPlanCoverage(c, plan, "large_")
	c.Count("large_stream_bytes", int64(len(b)))
	c.Nontrivial(b)
}

var orderPairCache [2][]*ref.PField

// orderPairFields: the scalar (non-array, non-string) profile fields of hosted messages; time
// kinds if timeKinds, all others if not.
func orderPairFields(timeKinds bool) []*ref.PField {
	k := 0
	if timeKinds {
		k = 1
	}
	if orderPairCache[k] != nil {
		return orderPairCache[k]
	}
	prof := lib.Profile()
	for _, pf := range prof.Fields {
		if pf.Array || ref.BaseTypes[pf.Base].Code == 0x07 || pf.Mesg == 0 {
			continue
		}
		isTime := pf.Kind == ref.KTimeUTC || pf.Kind == ref.KTimeLocal
		if isTime != timeKinds {
			continue
		}
		hosted := false
		for _, ft := range lib.FileTypes {
			if prof.Hosted(ft.Type, pf.Mesg) {
				hosted = true
			}
		}
		if hosted {
			orderPairCache[k] = append(orderPairCache[k], pf)
		}
	}
	return orderPairCache[k]
}

// orderPairs: "under the definition's byte order": for field pf, every base type byte and size
// 1..8, one stream carries an integer little endian and its twin carries the same integer big
// endian (the field's bytes reversed, definition marked big endian). Whatever the decoder makes
// of a definition (single element, several elements of a narrower type, narrower or wider than
// the profile type): it must reject both or decode both to the same message. For time fields a
// record with a compressed timestamp header follows, so that the reference the field leaves
// behind is compared as well.
func orderPairs(c *lib.Ctx, pf *ref.PField) {
	prof := lib.Profile()
	ft := byte(4)
	for _, t := range lib.FileTypes {
		if prof.Hosted(t.Type, pf.Mesg) {
			ft = t.Type
			break
		}
	}
	patterns := [][]byte{{0x11, 0x22, 0x33, 0x44, 0x55, 0x66, 0x77, 0x08}, {0x80, 0x01, 0xFE, 0x7F, 0x00, 0xFF, 0x10, 0x81}, {0x3B, 0x9A, 0xCA, 0x01, 0, 0, 0, 0}}
	for _, bt := range ref.BaseTypes {
		for size := 1; size <= 8; size++ {
			if size%bt.Size != 0 {
				continue
			}
			if size != bt.Size && pf.Kind == ref.KNative {
				// several elements of a narrower type for a plain scalar: what the wire bytes
				// "denote" then is not defined by the statement (the library keeps the first
				// element); only time and coordinate fields, which the decoder assembles from all
				// bytes of the field, are compared for multi-element definitions
				continue
			}
			for pi, pat := range patterns {
				var got [2]*lib.Content
				var errs [2]error
				for arch := byte(0); arch < 2; arch++ {
					data := append([]byte{}, pat[:size]...)
					if arch == 1 {
						for i, j := 0, len(data)-1; i < j; i, j = i+1, j-1 {
							data[i], data[j] = data[j], data[i]
						}
					}
					plan := &ref.Plan{HeaderSize: 14, Proto: 0x20, ProfVer: 2115}
					plan.Records = append(plan.Records,
						ref.Record{IsDef: true, Local: 0, Global: 0, Fields: []ref.FieldDef{{Num: 0, Size: 1, Base: 0}}},
						ref.Record{Local: 0, Data: [][]byte{{ft}}},
						ref.Record{IsDef: true, Local: 1, Arch: arch, Global: pf.Mesg, Fields: []ref.FieldDef{{Num: pf.Num, Size: byte(size), Base: bt.Code}}},
						ref.Record{Local: 1, Data: [][]byte{data}},
						ref.Record{IsDef: true, Local: 2, Arch: arch, Global: pf.Mesg},
						ref.Record{Local: 2, Compressed: true, TimeOffset: 9})
					b := plan.Bytes()
					c.SetInflight(b)
					f, derr, o := lib.GuardedDecode(b)
					c.Eval()
					if o.Panicked || o.Hang {
						c.Violation(b, "message %d field %d defined as %s size %d arch %d: Decode panicked/hung: %s", pf.Mesg, pf.Num, bt.Name, size, arch, o.Panic)
						return
					}
					errs[arch] = derr
					if derr == nil {
						got[arch] = lib.FileContent(f)
					}
				}
				if (errs[0] == nil) != (errs[1] == nil) {
					c.Violation(nil, "message %d field %d defined as %s size %d (pattern %d): accepted in one byte order, rejected in the other (little endian: %v, big endian: %v)", pf.Mesg, pf.Num, bt.Name, size, pi, errs[0], errs[1])
					return
				}
				if errs[0] != nil {
					c.Count("order_pairs_rejected_in_both_orders", 1)
					continue
				}
				if diffs := lib.CompareContent(got[0], got[1], lib.CompareOpts{}); len(diffs) > 0 {
					c.Violation(nil, "message %d field %d defined as %s size %d: the same integer (bytes % x little endian, reversed big endian) decodes differently in the two byte orders: %s", pf.Mesg, pf.Num, bt.Name, size, pat[:size], lib.DiffsString(diffs, 3))
					return
				}
				c.Count("order_pairs_equal", 1)
			}
		}
	}
	c.Nontrivial([]byte(fmt.Sprintf("order-pairs %d.%d", pf.Mesg, pf.Num)))
}
