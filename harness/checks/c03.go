package checks

import (
	"bytes"
	"fmt"
	"strings"

	"github.com/tormoder/fit"

	"verifharness/lib"
	"verifharness/ref"
)

func init() { registrars = append(registrars, registerC03) }

func registerC03() {
	lib.Register(&lib.Check{
		ID:    "C03",
		Level: "exploration",
		Rule: "family filetypes: all 256 file_id.type values (Decode, NewFile and the 17x17 accessor matrix: exactly the matching accessor returns a non-nil container, " +
			"all others an error, also after the File's public FileId.Type has been set to each of the 255 other values; the 239 values without a container must be rejected); family routing: for each of the 17 file types, PRNG interleavings of messages drawn from all " +
			"101 known types and unknown numbers, each carrying a unique serial number, compared with the routing the declared container types prescribe (reflection on the public " +
			"container structs: *XMsg = single-valued slot holding the last, []*XMsg = ordered slot); every file type without a container is also placed inside chains (good+X, X+good, good+X+good): DecodeChained must return an error and no container for X; family very-long: files with more than 2^22 (thorough: up to 2^24 + 5) one-byte filler records - of a message the file type does not hold, or of hrv, which it holds - in front of records, a lap and the activity message, all of which must reach their containers; non-trivial: at least one hosted and one non-hosted message; distinct by stream digest",
		Assume: []string{
			"a repeated file_id restates the same type (a file_id that changes the type in mid-stream is not defined by the statement and not generated)",
			"messages of known types that no container hosts are unobservable through the API; for them only 'no effect on the others' is checked",
		},
		MinNontrivial: 300,
		Families: []lib.Family{
			{Name: "filetypes", N: func(string) uint64 { return 256 }, Run: c03FileType},
			{Name: "routing", N: func(t string) uint64 { return tierN(t, 17*3000, 17*60000) }, Run: c03Routing},
			{Name: "dup-fields", N: func(t string) uint64 { return tierN(t, 17*60, 17*2000) }, Run: c03DupFields},
			{Name: "fileid-change", N: func(t string) uint64 { return tierN(t, 17*400, 17*10000) }, Run: c03FileIdChange},
			{Name: "very-long", N: func(t string) uint64 { return tierN(t, 2, 6) }, Run: c03VeryLong},
		},
	})
}

// c03VeryLong: a file with more than 2^22 (thorough: up to 2^24 + 5) data records in front of
// the messages that matter: filler records of a message the file type does not hold (zero-field
// definition: one byte each), or - case 1 - of one it does hold (hrv, the lightest message),
// then one message of several held types. Every held message must reach its container, however
// many records came before it.
func c03VeryLong(c *lib.Ctx, idx uint64) {
	n := []int{1<<22 + 3, 1<<22 + 1, 1<<23 + 1, 1<<24 + 5, 1<<22 + 100000, 1 << 22}[idx%6]
	held := idx%2 == 1
	filler := uint16(28) // schedule: not part of an activity file
	if held {
		filler = 78 // hrv
	}
	tail := &ref.Plan{HeaderSize: 14, Proto: 0x20, ProfVer: 2115}
	tail.Records = append(tail.Records,
		ref.Record{IsDef: true, Local: 0, Global: 0, Fields: []ref.FieldDef{{Num: 0, Size: 1, Base: 0}}},
		ref.Record{Local: 0, Data: [][]byte{{4}}},
		ref.Record{IsDef: true, Local: 1, Global: filler})
	head := tail.DataBytes()
	after := &ref.Plan{}
	after.Records = append(after.Records,
		ref.Record{IsDef: true, Local: 2, Global: 20, Fields: []ref.FieldDef{{Num: 3, Size: 1, Base: 0x02}}},
		ref.Record{Local: 2, Data: [][]byte{{101}}},
		ref.Record{Local: 2, Data: [][]byte{{102}}},
		ref.Record{IsDef: true, Local: 3, Global: 19, Fields: []ref.FieldDef{{Num: 254, Size: 2, Base: 0x84}}},
		ref.Record{Local: 3, Data: [][]byte{{7, 0}}},
		ref.Record{IsDef: true, Local: 4, Global: 34, Fields: []ref.FieldDef{{Num: 1, Size: 2, Base: 0x84}}},
		ref.Record{Local: 4, Data: [][]byte{{1, 0}}})
	rest := after.DataBytes()
	data := make([]byte, 0, len(head)+n+len(rest))
	data = append(data, head...)
	for i := 0; i < n; i++ {
		data = append(data, 0x01) // data record of local type 1, no fields
	}
	data = append(data, rest...)
	b := append(tail.HeaderBytes(len(data)), data...)
	crc := fastCRC(0, b)
	b = append(b, byte(crc), byte(crc>>8))
	c.SetInflight(b[:64])
	c.Tick()
	f, derr, out := lib.GuardedDecode(b)
	c.Eval()
	c.Tick()
	if out.Panicked || out.Hang {
		c.Violation(b[:64], "Decode panicked/hung on a file with %d filler records: %s", n, out.Panic)
		return
	}
	if derr != nil {
		c.Violation(b[:64], "Decode rejected a well-formed file with %d one-byte records of message %d in front of its records, lap and activity message: %v", n, filler, derr)
		return
	}
	act, err := f.Activity()
	if err != nil {
		c.Violation(b[:64], "Activity() failed: %v", err)
		return
	}
	if len(act.Records) != 2 || act.Records[0].HeartRate != 101 || act.Records[1].HeartRate != 102 || len(act.Laps) != 1 || act.Laps[0].MessageIndex != 7 || act.Activity == nil || act.Activity.NumSessions != 1 {
		c.Violation(b[:64], "after %d filler records of message %d: %d records, %d laps, activity message present: %v (want 2, 1, true with their values)", n, filler, len(act.Records), len(act.Laps), act.Activity != nil)
		return
	}
	if held && len(act.Hrvs) != n {
		c.Violation(b[:64], "%d hrv records written, %d held by the container", n, len(act.Hrvs))
		return
	}
	c.Count("files_with_more_than_4_million_records", 1)
	c.Nontrivial([]byte(fmt.Sprint("very-long", n, held)))
}

func c03FileType(c *lib.Ctx, idx uint64) {
	v := byte(idx)
	valid := -1
	for i, ft := range lib.FileTypes {
		if ft.Type == v {
			valid = i
		}
	}
	rng := lib.NewRand("C03.filetypes", idx)
	o := lib.GenOpts{FileType: v, Records: 6, Locals: 2, BigEndian: 50, Serial: true, Mesgs: []uint16{49, 20, 23, 34, 26, 27}}
	g := lib.NewPlanGen(rng, o)
	plan := g.Fill()
	b := plan.Bytes()
	c.SetInflight(b)
	f, derr, out := lib.GuardedDecode(b)
	c.Eval()
	if out.Panicked || out.Hang {
		c.Violation(b, "Decode panicked for file type %d: %s", v, out.Panic)
		return
	}
	var nf *fit.File
	var nerr error
	o2 := lib.Guard(func() { nf, nerr = fit.NewFile(fit.FileType(v), fit.NewHeader(fit.V20, true)) })
	c.Eval()
	if o2.Panicked {
		c.Violation(b, "NewFile panicked for file type %d: %s", v, o2.Panic)
		return
	}
	if valid < 0 {
		if derr == nil {
			c.Violation(b, "Decode accepted a file whose file_id.type %d has no container", v)
		}
		if nerr == nil {
			c.Violation(b, "NewFile(%d) succeeded although the type has no container", v)
		}
		// Whatever was returned, no accessor may hand out a container.
		for _, ff := range []*fit.File{f, nf} {
			if ff == nil {
				continue
			}
			ct := lib.FileContent(ff)
			for i := range ct.AccessorOK {
				if ct.AccessorNonNil[i] {
					c.Violation(b, "file type %d: accessor %s returned a container", v, lib.FileTypes[i].Name)
				}
			}
		}
		// The same member inside a chain: DecodeChained must report it, in whatever position it
		// sits, and must not hand out containers for it.
		good := lib.NewPlanGen(lib.NewRand("C03.filetypes.good", idx), lib.GenOpts{FileType: lib.FileTypes[int(idx)%len(lib.FileTypes)].Type, Records: 4, Locals: 2, Serial: true, Mesgs: []uint16{49, 20, 23}}).Fill().Bytes()
		for k, chain := range [][]byte{
			append(append([]byte{}, good...), b...),
			append(append([]byte{}, b...), good...),
			append(append(append([]byte{}, good...), b...), good...),
		} {
			var files []*fit.File
			var cerr error
			oc := lib.Guard(func() { files, cerr = fit.DecodeChained(bytes.NewReader(chain)) })
			c.Eval()
			if oc.Panicked {
				c.Violation(chain, "DecodeChained panicked on a chain (shape %d) with a member of file type %d: %s", k, v, oc.Panic)
				continue
			}
			if cerr == nil {
				c.Violation(chain, "DecodeChained returned no error for a chain (shape %d) with a member whose file_id.type %d has no container (%d files returned)", k, v, len(files))
			}
			for _, ff := range files {
				if ff == nil || ff.Type() != fit.FileType(v) {
					continue
				}
				ct := lib.FileContent(ff)
				for i := range ct.AccessorOK {
					if ct.AccessorNonNil[i] {
						c.Violation(chain, "chain member of file type %d: accessor %s returned a container", v, lib.FileTypes[i].Name)
					}
				}
			}
			c.Count("rejected_types_inside_chains", 1)
		}
		c.Count("rejected_types", 1)
		c.Nontrivial([]byte{v})
		return
	}
	if derr != nil {
		c.Violation(b, "Decode rejected a file of valid type %d: %v", v, derr)
		return
	}
	if nerr != nil || nf == nil {
		c.Violation(b, "NewFile(%d) failed: %v", v, nerr)
		return
	}
	for k, ff := range []*fit.File{f, nf} {
		ct := lib.FileContent(ff)
		for i := range ct.AccessorOK {
			want := i == valid
			if ct.AccessorOK[i] != want || ct.AccessorNonNil[i] != want {
				c.Violation(b, "file type %d (%s, source %d): accessor %s: error-free=%v non-nil=%v, want %v", v, lib.FileTypes[valid].Name, k, lib.FileTypes[i].Name, ct.AccessorOK[i], ct.AccessorNonNil[i], want)
			}
		}
		c.Count("accessor_calls", int64(len(ct.AccessorOK)))
	}
	if nf.Type() != fit.FileType(v) {
		c.Violation(b, "NewFile(%d).Type() = %d", v, nf.Type())
	}
	// round 13: the accessors follow the file_id of the File as it is when they are called.
	// A caller that re-labels a File (FileId is a public field) gets an error from every
	// accessor that does not match the new label - the container of the old type included.
	for k, ff := range []*fit.File{f, nf} {
		for w := 0; w < 256; w++ {
			if w == int(v) {
				continue
			}
			ff.FileId.Type = fit.FileType(w)
			ct := lib.FileContent(ff)
			for i := range ct.AccessorOK {
				if lib.FileTypes[i].Type != byte(w) && (ct.AccessorOK[i] || ct.AccessorNonNil[i]) {
					c.Violation(b, "File of type %d (source %d) re-labelled to file_id.type %d: accessor %s returns no error (container handed out: %v) although it does not match the file_id type", v, k, w, lib.FileTypes[i].Name, ct.AccessorNonNil[i])
				}
			}
			c.Count("accessor_calls_after_relabel", int64(len(ct.AccessorOK)))
		}
		ff.FileId.Type = fit.FileType(v)
	}
	c.Count("accepted_types", 1)
	c.Nontrivial([]byte{v})
	c.Sample("filetype", 1, map[string]interface{}{"type": v, "container": lib.FileTypes[valid].Name})
}

func c03Routing(c *lib.Ctx, idx uint64) {
	rng := lib.NewRand("C03.routing", idx)
	fti := idx % uint64(len(lib.FileTypes))
	ft := lib.FileTypes[fti].Type
	// Half of the draws from hosted types, half from all known types.
	all := lib.KnownMesgs()
	hosted := lib.HostedMesgs(ft)
	var pool []uint16
	for len(pool) < 2*len(all) {
		pool = append(pool, hosted...)
	}
	pool = append(pool[:len(all)], all...)
	o := lib.GenOpts{
		FileType:      ft,
		Mesgs:         pool,
		Records:       15 + rng.Intn(60),
		Locals:        1 + rng.Intn(8),
		Redefine:      25,
		BigEndian:     50,
		Unknown:       25,
		Serial:        true,
		MaxFields:     4,
		ZeroFieldDefs: 4,
		RedefSimilar:  30,
		Monster:       3,
		RepeatPrev:    12,
		ReservedBits:  6,
		// message_index, start_time and timestamp together on the messages that have them:
		// consecutive messages may then agree in everything but the timestamp
		ForceFields: func(r *lib.Rand, g uint16) []byte {
			if r.Chance(1, 3) {
				return []byte{254, 2, 253}
			}
			return nil
		},
	}
	g := lib.NewPlanGen(rng, o)
	var plan *ref.Plan
	if idx%40 == 7 {
		// a long recording: early definitions on slots 8-15 stay in use while slots 0-7 are
		// redefined thousands of times (more than 4096 field definitions in one file), then
		// messages arrive on every slot again and must still be routed by their own definition
		g.O.Locals, g.O.Redefine, g.O.Records, g.O.Monster, g.O.MaxFields = 16, 5, 40, 0, 12
		g.Fill()
		g.O.Locals, g.O.Redefine, g.O.Records = 8, 50, 1200+rng.Intn(1500)
		g.Fill()
		g.O.Locals, g.O.Redefine, g.O.Records = 16, 0, 60
		plan = g.Fill()
		c.Count("long_recordings", 1)
	} else {
		plan = g.Fill()
	}
	ex, _, ok := checkPlanDecode(c, plan, "", true)
	if !ok || ex == nil {
		return
	}
	hostedN, dropped := 0, 0
	for _, m := range ex.Meta {
		if m.Hosted {
			hostedN++
			c.Count(fmt.Sprintf("routed:%s.%s", lib.FileTypes[fti].Name, m.Slot), 1)
		} else {
			dropped++
		}
	}
	c.Count("messages_routed", int64(hostedN))
	c.Count("messages_dropped_unhosted", int64(dropped))
	unk := 0
	for _, n := range ex.Interp.UnknownMsgs {
		unk += n
	}
	c.Count("unknown_messages", int64(unk))
	if hostedN > 1 && dropped > 0 {
		c.Nontrivial(plan.Bytes())
	}
	c.Sample("routing", 2, map[string]interface{}{"file_type": lib.FileTypes[fti].Name, "records": len(plan.Records), "routed": hostedN, "dropped": dropped, "unknown": unk})
}

// c03FileIdChange: a second file_id message that restates, changes or drops
// the file type. Whatever Decode does with it, a File it returns without an
// error must be coherent: exactly the accessor matching File.Type() hands out
// a container, and the File can be encoded.
func c03FileIdChange(c *lib.Ctx, idx uint64) {
	rng := lib.NewRand("C03.fileid-change", idx)
	fti := idx % uint64(len(lib.FileTypes))
	ft := lib.FileTypes[fti].Type
	o := lib.GenOpts{FileType: ft, Mesgs: lib.HostedMesgs(ft), Records: 3 + rng.Intn(6), Locals: 2, BigEndian: 50, Serial: true, MaxFields: 3}
	g := lib.NewPlanGen(rng, o)
	plan := g.Fill()
	// Second file_id on a fresh slot.
	kind := rng.Intn(4)
	t2 := ft
	// The second file_id sits on a slot of its own; half of the time on slot 0-3 behind a
	// compressed-timestamp header (a different code path in the decoder).
	slot := byte(9)
	compressed := false
	if rng.Chance(1, 2) {
		slot = byte(rng.Intn(4))
		compressed = rng.Chance(2, 3)
	}
	def := ref.Record{IsDef: true, Local: slot, Global: 0, Arch: byte(rng.Intn(2))}
	data := ref.Record{Local: slot, Compressed: compressed, TimeOffset: byte(rng.Intn(32))}
	switch kind {
	case 0: // same type restated
		def.Fields = []ref.FieldDef{{Num: 0, Size: 1, Base: 0}}
		data.Data = [][]byte{{ft}}
	case 1: // another valid type
		t2 = lib.FileTypes[(fti+1+uint64(rng.Intn(16)))%17].Type
		def.Fields = []ref.FieldDef{{Num: 0, Size: 1, Base: 0}}
		data.Data = [][]byte{{t2}}
	case 2: // a type without a container
		t2 = []byte{0, 8, 40, 0xF7, 0xFF}[rng.Intn(5)]
		def.Fields = []ref.FieldDef{{Num: 0, Size: 1, Base: 0}}
		data.Data = [][]byte{{t2}}
	default: // no type field at all
		t2 = 0xFF
		def.Fields = []ref.FieldDef{{Num: 1, Size: 2, Base: 0x84}}
		data.Data = [][]byte{{1, 0}}
	}
	plan.Records = append(plan.Records, def, data)
	g2 := lib.NewPlanGen(rng, o) // more messages after the second file_id
	recs := g2.Fill().Records
	// keep g2's file_id definition (its slot may be reused), drop its file_id data record
	plan.Records = append(plan.Records, recs[0])
	plan.Records = append(plan.Records, recs[2:]...)
	b := plan.Bytes()
	c.SetInflight(b)
	f, derr, out := lib.GuardedDecode(b)
	c.Eval()
	if out.Panicked || out.Hang {
		c.Violation(b, "Decode panicked on a stream with a second file_id (kind %d): %s", kind, out.Panic)
		return
	}
	c.Count(fmt.Sprintf("second_fileid_kind%d", kind), 1)
	if compressed {
		c.Count("second_fileid_behind_compressed_header", 1)
	}
	if kind == 0 {
		if derr != nil {
			c.Violation(b, "Decode rejected a stream whose second file_id restates the same type: %v", derr)
			return
		}
	}
	if derr != nil {
		c.Count("second_fileid_rejected", 1)
		c.Nontrivial(b)
		return
	}
	ct := lib.FileContent(f)
	match := -1
	for i, t := range lib.FileTypes {
		if t.Type == ct.FileType {
			match = i
		}
	}
	for i := range ct.AccessorOK {
		want := i == match
		if ct.AccessorOK[i] != want || ct.AccessorNonNil[i] != want {
			c.Violation(b, "Decode accepted a stream whose second file_id has type %d (first: %d); the File reports type %d but accessor %s: error-free=%v non-nil=%v", t2, ft, ct.FileType, lib.FileTypes[i].Name, ct.AccessorOK[i], ct.AccessorNonNil[i])
			return
		}
	}
	if match < 0 {
		c.Violation(b, "Decode accepted a stream and returned a File of type %d, which has no container", ct.FileType)
		return
	}
	_, eerr, eo := lib.GuardedEncode(f, archOrder(0))
	c.Eval()
	// Only failures caused by the file type count here (whether every decoded value can be encoded is C07's subject).
	if eo.Panicked || eerr != nil && (strings.Contains(eerr.Error(), "filetype") || strings.Contains(eerr.Error(), "file type")) {
		c.Violation(b, "Decode accepted a stream with a second file_id (type %d after %d) but the File cannot be encoded: %v %s", t2, ft, eerr, eo.Panic)
		return
	}
	c.Count("second_fileid_accepted_coherent", 1)
	c.Nontrivial(b)
}

// c03DupFields: a definition that lists the same field number twice is still a definition of
// its message: the records written with it are routed like any others. (Which of the two values
// wins is not part of the property and is not compared.)
func c03DupFields(c *lib.Ctx, idx uint64) {
	rng := lib.NewRand("C03.dup-fields", idx)
	fti := idx % uint64(len(lib.FileTypes))
	ft := lib.FileTypes[fti].Type
	hosted := lib.HostedMesgs(ft)
	if len(hosted) == 0 {
		return
	}
	o := lib.GenOpts{FileType: ft, Mesgs: hosted, Records: 6 + rng.Intn(12), Locals: 1 + rng.Intn(3), Redefine: 30, BigEndian: 50, MaxFields: 3, Serial: true, FixedWidthOnly: true}
	g := lib.NewPlanGen(rng, o)
	plan := g.Fill()
	// duplicate one field (definition entry and its data bytes) in every definition that has one
	var defs [16]int
	dup := map[int]int{} // definition record index -> index of the duplicated field
	for i := range plan.Records {
		r := &plan.Records[i]
		if r.IsDef {
			defs[r.Local] = i
			if r.Global != 0 && len(r.Fields) > 0 && len(r.Fields) < 250 {
				k := rng.Intn(len(r.Fields))
				dup[i] = k
				r.Fields = append(r.Fields, r.Fields[k])
			}
			continue
		}
		if k, ok := dup[defs[r.Local]]; ok && plan.Records[defs[r.Local]].IsDef {
			nd := append([][]byte{}, r.Data...)
			extra := append([]byte{}, r.Data[k]...)
			if rng.Chance(1, 2) {
				for j := range extra {
					extra[j] ^= 0x01
				}
			}
			nf := len(plan.Records[defs[r.Local]].Fields) - 1
			// data layout: regular fields, then developer fields: insert after the regular ones
			nd = append(nd[:nf], append([][]byte{extra}, nd[nf:]...)...)
			r.Data = nd
		}
	}
	if len(dup) == 0 {
		return
	}
	b := plan.Bytes()
	c.SetInflight(b)
	ex, err := lib.Expect(plan, lib.ExpectOpts{})
	if err != nil || ex.Fail {
		return // the model does not take the plan: nothing to compare with
	}
	f, derr, out := lib.GuardedDecode(b)
	c.Eval()
	if out.Panicked || out.Hang {
		c.Violation(b, "Decode panicked/hung on a stream whose definitions list a field number twice: %s", out.Panic)
		return
	}
	if derr != nil {
		c.Violation(b, "Decode rejects a stream whose definitions list a field number twice (every record is complete and of the defined size): %v - the messages of the held types never reach their containers", derr)
		return
	}
	if got, want := slotCounts(lib.FileContent(f)), slotCounts(ex.Content); got != want {
		c.Violation(b, "messages dropped or misrouted when definitions list a field number twice: containers hold %s, the stream has %s", got, want)
		return
	}
	c.Count("streams_with_duplicated_field_numbers", 1)
	c.Nontrivial(b)
}
