package checks

import (
	"bufio"
	"bytes"
	"encoding/binary"
	"fmt"
	"io"
	"os"
	"path/filepath"

	"github.com/tormoder/fit"

	"verifharness/lib"
	"verifharness/ref"
)

func init() { registrars = append(registrars, registerC05, registerC06) }

func registerC05() {
	lib.Register(&lib.Check{
		ID:    "C05",
		Level: "exploration",
		Rule: "Files built through the public API (NewHeader, NewFile, message constructors, exported fields) for all 17 file types x all hosted message types; field subsets " +
			"{none, one, half, all, PRNG} differing between messages of one slice (forces the union definition); boundary and PRNG values, one string field in six longer than its field (up to 600 bytes: the wire must carry the longest prefix that fits without splitting a character); both byte orders; headers with and " +
			"without CRC; protocol V10/V20; every fifth File is also encoded into a writer of another dynamic type (a file on disk, a bytes.Buffer already holding data, a bufio.Writer, a writer offering Seek/WriteAt/WriteString/ReadFrom) and must give the same bytes; every third case is preceded by an Encode that fails (writer error on the 1st-3rd write, or a string that is not valid UTF-8). The bytes Encode writes are parsed by the independent strict grammar parser (header, data size, both CRCs, definition before data, " +
			"record lengths, size multiple of base size, known base byte, arch byte), every definition is checked against the profile, the stream is interpreted by the reference " +
			"interpreter and compared with the File's own values, and the File's header data size / header CRC / file CRC are compared with the bytes written. Non-trivial: the File " +
			"has at least two messages with a field set; distinct by digest of the encoded bytes",
		Assume:        []string{"values are in the encodable domain (valid UTF-8 strings that fit, arrays within the profile length)"},
		MinNontrivial: 300,
		Families: []lib.Family{
			{Name: "files", N: func(t string) uint64 { return tierN(t, 68000, 1000000) }, Run: c05Case},
		},
	})
}

func archOrder(a int) binary.ByteOrder {
	if a == 1 {
		return binary.BigEndian
	}
	return binary.LittleEndian
}

// genRoundTripFile is shared by C05 and C06.
func genRoundTripFile(rng *lib.Rand, idx uint64, noSources bool, longStrings ...bool) (*fit.File, byte, int) {
	fti := idx % uint64(len(lib.FileTypes))
	ft := lib.FileTypes[fti].Type
	arch := int(idx / uint64(len(lib.FileTypes)) % 2)
	o := lib.FileGenOpts{FileType: ft, MaxPerSlot: 1 + rng.Intn(5), NoSources: noSources}
	o.LongStrings = len(longStrings) > 0 && longStrings[0]
	if idx%97 == 0 {
		o.MaxPerSlot = 40 + rng.Intn(300) // long slices: one definition serving hundreds of records, files of 10-300 KB
	}
	if idx%389 == 0 {
		o.Phased = true // slices of 600-1100 (every fourth: 4500-9000) messages whose set fields change from phase to phase
		o.PhasedLong = idx%(389*4) == 0
		if idx%(389*8) == 389*4 {
			o.PhasedMin, o.PhasedSpan, o.PhasedSlots = 16400, 3000, 1 // one slice of more than 2^14 messages
		}
		if idx == 389*4 {
			// once: an activity with more than 2^16 event messages (a light message: the harness
			// holds several copies of the content), fields appearing late and in the last messages
			ft = 4
			o.FileType, o.PhasedGlobal, o.PhasedMin, o.PhasedSpan = 4, 21, 66000, 5000
		}
	}
	f := lib.GenFile(rng, o)
	if f != nil && idx%5 == 2 {
		// a File that has been through Encode or Decode before and whose header was then edited in
		// place: the fields Encode fills in (data size, header CRC) hold leftovers that no longer
		// match the other header fields
		f.Header.CRC = uint16(rng.U64())
		f.Header.DataSize = uint32(rng.U64())
		if rng.Chance(1, 2) {
			f.Header.ProfileVersion = uint16(rng.Intn(3000))
		}
	}
	return f, ft, arch
}

func countSet(ct *lib.Content) (msgs int) {
	prof := lib.Profile()
	for _, s := range ct.Slots {
		inv := prof.Invalid[s.Global]
		for _, m := range s.Msgs {
			for i := range m {
				if i < len(inv) && !m[i].Equal(inv[i]) {
					msgs++
					break
				}
			}
		}
	}
	return
}

func c05Case(c *lib.Ctx, idx uint64) {
	rng := lib.NewRand("C05.files", idx)
	f, ft, arch := genRoundTripFile(rng, idx, false, true)
	if f == nil {
		c.Violation(nil, "NewFile failed for valid file type %d", ft)
		return
	}
	pre := lib.FileContent(f)
	if idx%3 == 2 {
		// A failed Encode just before (writer error part-way, or a File with a string that cannot
		// be encoded) must leave nothing behind that shows up in this call's output.
		failedEncodePrelude(c, rng, idx)
	}
	out, err, o := lib.GuardedEncode(f, archOrder(arch))
	c.Eval()
	c.SetInflight(out)
	if o.Panicked {
		c.Violation(nil, "Encode panicked on a File built through the public API (type %d): %s\n%s", ft, o.Panic, o.Stack)
		return
	}
	if err != nil {
		if lib.HasOverlong(pre) {
			// a string or array that cannot travel in full: refusing it is not judged here, only
			// what is written when Encode accepts it
			c.Count("files_with_overlong_values_refused_by_encode", 1)
			return
		}
		c.Violation(nil, "Encode failed on an in-domain File (type %d): %v", ft, err)
		return
	}
	if lib.HasOverlong(pre) {
		c.Count("files_with_overlong_values_encoded", 1)
	}
	parsed, perr := ref.Parse(out, ref.ParseOptions{Strict: true})
	if perr != nil {
		c.Violation(out, "the bytes Encode wrote do not parse under the FIT grammar: %v", perr)
		return
	}
	if parsed.FrameLen != len(out) {
		c.Violation(out, "Encode wrote %d bytes but header size + data size + 2 = %d", len(out), parsed.FrameLen)
		return
	}
	if parsed.HeaderSize != pre.HeaderSize || parsed.Proto != pre.Proto || parsed.ProfVer != pre.ProfVer {
		c.Violation(out, "written header (size %d, protocol %#x, profile %d) differs from the File's header (size %d, protocol %#x, profile %d)", parsed.HeaderSize, parsed.Proto, parsed.ProfVer, pre.HeaderSize, pre.Proto, pre.ProfVer)
		return
	}
	if parsed.HeaderSize == 14 && parsed.HeaderCRC == 0 {
		// Legal under the protocol (0 = "not computed"), and the true CRC of 12 bytes is 0 once in
		// 65536 headers: counted, not judged. ref.Parse has already verified a non-zero one.
		c.Count("header_crc_zero_on_the_wire", 1)
	}
	// Definitions against the profile.
	prof := lib.Profile()
	wantArch := byte(arch)
	for i := range parsed.Records {
		r := &parsed.Records[i]
		if !r.IsDef {
			continue
		}
		if r.Arch != wantArch {
			c.Violation(out, "definition %d has arch byte %d, Encode was asked for %d", i, r.Arch, wantArch)
			return
		}
		if !prof.Known[r.Global] {
			c.Violation(out, "definition %d is for message %d which the profile does not know", i, r.Global)
			return
		}
		seen := map[byte]bool{}
		for _, fd := range r.Fields {
			pf := prof.Field(r.Global, fd.Num)
			if pf == nil {
				c.Violation(out, "definition of message %d lists field %d which the profile does not have", r.Global, fd.Num)
				return
			}
			if seen[fd.Num] {
				c.Violation(out, "definition of message %d lists field %d twice", r.Global, fd.Num)
				return
			}
			seen[fd.Num] = true
			bt := ref.BaseTypes[pf.Base]
			wantSize := bt.Size
			if bt.Code == 0x07 || pf.Array {
				wantSize = bt.Size * int(pf.Length)
			}
			if fd.Base != bt.Code || int(fd.Size) != wantSize {
				c.Violation(out, "definition of message %d field %d: base %#x size %d, profile says base %#x size %d", r.Global, fd.Num, fd.Base, fd.Size, bt.Code, wantSize)
				return
			}
		}
	}
	// Values on the wire equal the values in the File.
	plan := &ref.Plan{HeaderSize: parsed.HeaderSize, Proto: parsed.Proto, ProfVer: parsed.ProfVer, Records: parsed.Records}
	ex, merr := lib.Expect(plan, lib.ExpectOpts{NoExpand: true})
	if merr != nil || ex.Fail {
		c.Violation(out, "the encoded stream cannot be interpreted: %v (undefined local type: %v)", merr, ex != nil && ex.Fail)
		return
	}
	// Local timestamps are written as wall-clock readings without a zone,
	// so they are compared by reading; everything else exactly (arrays up to padding).
	diffs := lib.CompareContent(lib.RelaxContent(pre), lib.RelaxContent(ex.Content), lib.CompareOpts{})
	if len(diffs) > 0 {
		c.Violation(out, "values on the wire differ from the values in the File: %s", lib.DiffsString(diffs, 4))
		return
	}
	// Post-conditions promised by Encode's documentation.
	if f.Header.DataSize != parsed.DataSize {
		c.Violation(out, "after Encode, File.Header.DataSize = %d, written %d", f.Header.DataSize, parsed.DataSize)
		return
	}
	if f.CRC != parsed.FileCRC {
		c.Violation(out, "after Encode, File.CRC = %#x, written %#x", f.CRC, parsed.FileCRC)
		return
	}
	if parsed.HeaderSize == 14 && f.Header.CRC != parsed.HeaderCRC {
		c.Violation(out, "after Encode, File.Header.CRC = %#x, but %#x was written (documentation: file.Header.CRC will be updated to the correct value)", f.Header.CRC, parsed.HeaderCRC)
		return
	}
	// The same File into writers of other dynamic types must give the same bytes: a file on disk
	// (io.Seeker, io.WriterAt, io.ReaderFrom ...), a bytes.Buffer that already holds data, a bufio
	// writer, and a writer offering Seek/WriteAt/WriteString/ReadFrom itself.
	if idx%5 == 0 {
		f2 := remakeFile(idx)
		if f2 != nil {
			kind := int(idx/5) % 4
			var got []byte
			var werr error
			wo := lib.Guard(func() { got, werr = encodeInto(kind, f2, archOrder(arch), out) })
			c.Eval()
			kinds := writerKinds
			if wo.Panicked {
				c.Violation(out, "Encode into a %s panicked: %s", kinds[kind], wo.Panic)
				return
			}
			if werr != nil || !bytes.Equal(got, out) {
				c.Violation(out, "Encode of the same File into a %s: error %v, %d bytes; into a plain writer: %d bytes; the outputs differ (first difference at byte %d)", kinds[kind], werr, len(got), len(out), firstDiff(got, out))
				return
			}
			c.Count("writer_kind_"+kinds[kind], 1)
		}
	}
	ndef, ndata := 0, 0
	for i := range parsed.Records {
		if parsed.Records[i].IsDef {
			ndef++
		} else {
			ndata++
		}
	}
	c.Count("definitions_checked", int64(ndef))
	c.Count("data_records_checked", int64(ndata))
	c.Count(fmt.Sprintf("filetype_%s_arch%d_hdr%d", lib.FileTypes[idx%uint64(len(lib.FileTypes))].Name, arch, parsed.HeaderSize), 1)
	if countSet(pre) >= 2 {
		c.Nontrivial(out)
	}
	c.Sample("file", 2, map[string]interface{}{"file_type": ft, "arch": arch, "bytes": len(out), "definitions": ndef, "data_records": ndata})
}

var writerKinds = []string{"*os.File", "*bytes.Buffer holding earlier data", "*bufio.Writer", "writer with Seek/WriteAt/WriteString/ReadFrom"}

// encodeInto encodes f into a writer of the given dynamic kind and returns what
// the destination holds afterwards (fallback, if no scratch file can be made, is
// given back unchanged).
func encodeInto(kind int, f *fit.File, order binary.ByteOrder, fallback []byte) (got []byte, werr error) {
	switch kind {
	case 0:
		dir := filepath.Join(lib.OutDir(), "work", "C05")
		os.MkdirAll(dir, 0o755)
		tf, e := os.CreateTemp(dir, "enc-*.fit")
		if e != nil {
			return fallback, nil
		}
		defer os.Remove(tf.Name())
		werr = fit.Encode(tf, f, order)
		tf.Close()
		got, _ = os.ReadFile(tf.Name())
	case 1:
		pre := []byte("earlier content of the buffer")
		buf := bytes.NewBuffer(append([]byte{}, pre...))
		werr = fit.Encode(buf, f, order)
		b := buf.Bytes()
		if len(b) >= len(pre) && bytes.Equal(b[:len(pre)], pre) {
			got = b[len(pre):]
		} else {
			got = append([]byte("<earlier content overwritten>"), b...)
		}
	case 2:
		var buf bytes.Buffer
		bw := bufio.NewWriterSize(&buf, 64)
		werr = fit.Encode(bw, f, order)
		bw.Flush()
		got = buf.Bytes()
	default:
		sw := &seekWriter{}
		werr = fit.Encode(sw, f, order)
		got = sw.data
	}
	return got, werr
}

// remakeFile rebuilds the File of case idx (the generators are deterministic).
func remakeFile(idx uint64) *fit.File {
	rng := lib.NewRand("C05.files", idx)
	f, _, _ := genRoundTripFile(rng, idx, false, true)
	return f
}

func firstDiff(a, b []byte) int {
	for i := 0; i < len(a) && i < len(b); i++ {
		if a[i] != b[i] {
			return i
		}
	}
	return minInt(len(a), len(b))
}

// seekWriter is an in-memory file: io.Writer, io.Seeker, io.WriterAt, io.StringWriter, io.ReaderFrom.
type seekWriter struct {
	data []byte
	pos  int
}

func (w *seekWriter) Write(p []byte) (int, error) {
	if need := w.pos + len(p); need > len(w.data) {
		w.data = append(w.data, make([]byte, need-len(w.data))...)
	}
	copy(w.data[w.pos:], p)
	w.pos += len(p)
	return len(p), nil
}

func (w *seekWriter) WriteString(s string) (int, error) { return w.Write([]byte(s)) }

func (w *seekWriter) WriteAt(p []byte, off int64) (int, error) {
	if need := int(off) + len(p); need > len(w.data) {
		w.data = append(w.data, make([]byte, need-len(w.data))...)
	}
	copy(w.data[off:], p)
	return len(p), nil
}

func (w *seekWriter) Seek(off int64, whence int) (int64, error) {
	switch whence {
	case io.SeekStart:
		w.pos = int(off)
	case io.SeekCurrent:
		w.pos += int(off)
	case io.SeekEnd:
		w.pos = len(w.data) + int(off)
	}
	if w.pos < 0 {
		w.pos = 0
	}
	return int64(w.pos), nil
}

func (w *seekWriter) ReadFrom(r io.Reader) (int64, error) {
	b, err := io.ReadAll(r)
	n, _ := w.Write(b)
	return int64(n), err
}

// failWriter fails on its n-th Write call.
type failWriter struct {
	n, calls int
}

func (w *failWriter) Write(p []byte) (int, error) {
	w.calls++
	if w.calls >= w.n {
		return 0, lib.ErrInjected
	}
	return len(p), nil
}

func failedEncodePrelude(c *lib.Ctx, rng *lib.Rand, idx uint64) {
	gen := func() *fit.File {
		return lib.GenFile(lib.NewRand("C05.prelude", idx), lib.FileGenOpts{FileType: lib.FileTypes[(idx/3)%uint64(len(lib.FileTypes))].Type, MaxPerSlot: 3, Subset: 3})
	}
	g := gen()
	if g == nil {
		return
	}
	order := archOrder(int(idx/2) % 2)
	var err error
	var o lib.Outcome
	switch idx % 4 {
	case 0:
		w := &failWriter{n: 1 + int(idx/6)%3}
		o = lib.Guard(func() { err = fit.Encode(w, g, order) })
		c.Count("prelude_failing_writer", 1)
	case 2:
		// a destination that takes k bytes and then fails with a partial count (disk full): k at
		// the header / first record / trailing CRC boundaries and in between
		var full bytes.Buffer
		if g2 := gen(); g2 == nil || fit.Encode(&full, g2, order) != nil {
			return
		}
		n := full.Len()
		ks := []int{0, 1, 11, 12, 13, 14, 15, n / 2, n - 3, n - 2, n - 1}
		k := ks[int(idx/12)%len(ks)]
		if k < 0 || k >= n {
			k = 0
		}
		w := &budgetWriter{budget: k}
		o = lib.Guard(func() { err = fit.Encode(w, g, order) })
		c.Count("prelude_writer_full_after_k_bytes", 1)
		if err == nil && !o.Panicked {
			c.Violation(full.Bytes(), "Encode returned nil although its destination failed after %d of %d bytes (it received %d)", k, n, w.got)
			return
		}
	default:
		g.FileId.ProductName = "bad\xff\xfeutf8"
		var buf bytes.Buffer
		o = lib.Guard(func() { err = fit.Encode(&buf, g, order) })
		c.Count("prelude_unencodable_string", 1)
	}
	c.Eval()
	if o.Panicked {
		c.Violation(nil, "Encode panicked instead of returning an error (failing writer / invalid string): %s", o.Panic)
		return
	}
	if err == nil {
		c.Violation(nil, "Encode returned nil although the writer failed or a string was not valid UTF-8")
	}
}

// budgetWriter accepts budget bytes in total, then fails with a partial count.
type budgetWriter struct {
	budget, got int
}

func (w *budgetWriter) Write(p []byte) (int, error) {
	if w.got+len(p) <= w.budget {
		w.got += len(p)
		return len(p), nil
	}
	n := w.budget - w.got
	w.got = w.budget
	return n, lib.ErrInjected
}

func registerC06() {
	lib.Register(&lib.Check{
		ID:    "C06",
		Level: "exploration",
		Rule: "family files: as C05 (in-domain Files over 17 file types, all hosted messages, PRNG subsets and values, both byte orders), encoded and decoded by the library; " +
			"family fields: every profile field of every hosted message set alone, under every file type hosting the message, in both byte orders, with four value draws. The decoded " +
			"content is compared with the input under exactly the relaxations of the statement (arrays up to trailing invalid padding, local timestamps by wall-clock reading, " +
			"component destinations as the reference component rule prescribes for the input message, unset fields invalid). Non-trivial: at least one field set; distinct by digest of the encoded bytes",
		Assume: []string{
			"in-domain: valid UTF-8 strings of at most length-1 bytes, arrays of 1..length elements, whole-second timestamps in [epoch+1, epoch+2^32-2], valid coordinates",
			"header data size and CRCs are C05's subject",
		},
		MinNontrivial: 300,
		Families386:   []string{"fields"}, // every field alone once more in a GOARCH=386 binary (32-bit int)
		Families: []lib.Family{
			{Name: "files", N: func(t string) uint64 { return tierN(t, 68000, 1000000) }, Run: c06Files},
			{Name: "fields", N: c06FieldsN, Run: c06Fields},
		},
	})
}

// roundTrip encodes f, decodes the bytes and compares under the relaxations.
func roundTrip(c *lib.Ctx, f *fit.File, arch int, label string) bool {
	prof := lib.Profile()
	pre := lib.FileContent(f)
	out, err, o := lib.GuardedEncode(f, archOrder(arch))
	c.Eval()
	c.SetInflight(out)
	if o.Panicked {
		c.Violation(nil, "%s: Encode panicked: %s\n%s", label, o.Panic, o.Stack)
		return false
	}
	if err != nil {
		c.Violation(nil, "%s: Encode failed on an in-domain File: %v", label, err)
		return false
	}
	g, derr, do := lib.GuardedDecode(out)
	c.Eval()
	if do.Panicked || do.Hang {
		c.Violation(out, "%s: Decode of Encode's output panicked: %s", label, do.Panic)
		lib.ShadowUnknown()
		return false
	}
	if derr != nil {
		c.Violation(out, "%s: Decode rejects what Encode wrote: %v", label, derr)
		lib.TrackFile(g)
		return false
	}
	preds := lib.TrackFile(g)
	got := lib.FileContent(g)
	// Expected: the input with the component rule applied, accumulators from zero.
	exp := *pre
	exp.Slots = make([]lib.Slot, len(pre.Slots))
	var st ref.CompState
	type key struct {
		slot string
		idx  int
	}
	infos := map[key]ref.CompInfo{}
	for i, s := range pre.Slots {
		ns := s
		ns.Msgs = make([][]ref.Val, len(s.Msgs))
		for j, m := range s.Msgs {
			mm := ref.Msg{Global: s.Global, F: lib.PadArrays(s.Global, m)}
			if ref.IsComponentMesg(s.Global) {
				infos[key{s.Name, j}] = prof.Expand(&mm, &st)
			}
			ns.Msgs[j] = mm.F
		}
		exp.Slots[i] = ns
	}
	es := prof.Field(ref.MesgRecord, 73)
	skip := func(slot string, gm uint16, idx int, si int) bool {
		return gm == ref.MesgRecord && es != nil && si == es.Sindex && infos[key{slot, idx}].AmbigSpeed
	}
	diffs := lib.CompareContent(lib.RelaxContent(&exp), lib.RelaxContent(got), lib.CompareOpts{Skip: skip})
	dist, cyc, pow := prof.Field(ref.MesgRecord, 5), prof.Field(ref.MesgRecord, 19), prof.Field(ref.MesgRecord, 29)
	ok := true
	for _, d := range diffs {
		ci := infos[key{d.Slot, d.Index}]
		if d.Global == ref.MesgRecord && d.Slot == "Records" && d.Sindex >= 0 {
			switch {
			case dist != nil && d.Sindex == dist.Sindex && ci.CSD && d.GotV.K == 'u' && d.Index < len(preds):
				if lib.ShadowIsUnknown() {
					pr := preds[d.Index]
					lib.ShadowResync(uint32(d.GotV.N), uint32(pr.Raw[1])>>4|uint32(uint8(pr.Raw[2]<<4)))
					continue
				}
				class, f5, f6 := lib.ClassifyDistance(uint32(d.GotV.N), preds[d.Index])
				if class == "known" {
					if f6 {
						c.Known("F6", out, "record.distance after a round trip: expected %s, got %s (high nibble of the 12-bit distance lost)", d.Exp, d.Got)
					}
					if f5 {
						c.Known("F5", out, "record.distance after a round trip: expected %s, got %s (accumulation continued from earlier decodes)", d.Exp, d.Got)
					}
					continue
				}
			case cyc != nil && d.Sindex == cyc.Sindex && ci.Cycles && d.GotV.K == 'u' && d.GotV.N == 0:
				c.Known("F7", out, "record.total_cycles after a round trip: expected %s, got 0", d.Exp)
				continue
			case pow != nil && d.Sindex == pow.Sindex && ci.Power && d.GotV.K == 'u' && d.GotV.N == 0:
				c.Known("F7", out, "record.accumulated_power after a round trip: expected %s, got 0", d.Exp)
				continue
			}
		}
		ok = false
		c.Violation(out, "%s: Decode(Encode(F)) differs from F: %s", label, d.String())
		break
	}
	if ok && countSet(pre) >= 1 {
		c.Nontrivial(out)
	}
	return ok
}

func c06Files(c *lib.Ctx, idx uint64) {
	rng := lib.NewRand("C06.files", idx)
	f, ft, arch := genRoundTripFile(rng, idx, false)
	if f == nil {
		c.Violation(nil, "NewFile failed for valid file type %d", ft)
		return
	}
	if roundTrip(c, f, arch, fmt.Sprintf("file type %d arch %d", ft, arch)) {
		c.Count(fmt.Sprintf("filetype_%d_arch%d", ft, arch), 1)
	}
	c.Sample("file", 1, map[string]interface{}{"file_type": ft, "arch": arch, "messages_with_fields": countSet(lib.FileContent(f))})
}

type c06FieldCase struct {
	ft byte
	pf *ref.PField
}

var c06FieldCases []c06FieldCase

func c06FieldList() []c06FieldCase {
	if c06FieldCases != nil {
		return c06FieldCases
	}
	prof := lib.Profile()
	for _, ft := range lib.FileTypes {
		for _, g := range append([]uint16{0}, lib.HostedMesgs(ft.Type)...) {
			for _, pf := range prof.ByMesg[g] {
				if g == 0 && pf.Num == 0 {
					continue
				}
				if ref.BaseTypes[pf.Base].Code == 0x07 && pf.Array {
					continue
				}
				c06FieldCases = append(c06FieldCases, c06FieldCase{ft.Type, pf})
			}
		}
	}
	return c06FieldCases
}

func c06FieldsN(t string) uint64 {
	return uint64(len(c06FieldList())) * 2 * tierN(t, 12, 96)
}

func c06Fields(c *lib.Ctx, idx uint64) {
	list := c06FieldList()
	fc := list[idx%uint64(len(list))]
	arch := int(idx / uint64(len(list)) % 2)
	rng := lib.NewRand("C06.fields", idx)
	o := lib.FileGenOpts{FileType: fc.ft, MaxPerSlot: 2, OnlyField: fc.pf}
	f := lib.GenFile(rng, o)
	if f == nil {
		c.Violation(nil, "NewFile failed for valid file type %d", fc.ft)
		return
	}
	// Make sure the message exists at least once.
	if roundTrip(c, f, arch, fmt.Sprintf("file type %d, only message %d field %d set, arch %d", fc.ft, fc.pf.Mesg, fc.pf.Num, arch)) {
		c.Count(fmt.Sprintf("field:%d.%d", fc.pf.Mesg, fc.pf.Num), 1)
	}
}
