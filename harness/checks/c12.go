package checks

import (
	"fmt"

	"verifharness/lib"
	"verifharness/ref"
)

func init() { registrars = append(registrars, registerC12) }

func registerC12() {
	lib.Register(&lib.Check{
		ID:    "C12",
		Level: "exploration",
		Rule: "PRNG sequences mixing explicit timestamps (field 253), compressed-timestamp records (all 32 offsets, rollovers, runs of up to 200) and local timestamps over " +
			"record / monitoring / activity / lap / device_info messages, messages without a timestamp field and unknown messages, both byte orders, local types 0-3; every time " +
			"field of every decoded message is compared with a 30-line reference state machine (ref/interp.go); one file type in six is a course file with course_point messages (field 1 is called timestamp, there is no field 253); family order-pairs: every time field defined with every base type and size 1..8, the same integer once little endian and once big endian, followed by a compressed-header record: rejected in both orders or the same times in both; family top-of-range: an explicit timestamp in the last 31 seconds of the 32-bit range followed by one compressed record whose offset keeps it in range (every pair, up to an advanced value of 0xFFFFFFFF exactly), then an ordinary reference and another compressed record; family zone-grid: every local-minus-UTC difference on the quarter-hour grid from -30 h to +30 h, each also 1, 7 and 59 s to either side, and far-out values; family chains: 2-3 such sequences concatenated and decoded by DecodeChained: the time reference starts afresh in every file (a compressed record or local timestamp before a file's first explicit timestamp has no reference); non-trivial: at least one compressed record with a reference, " +
			"or a local timestamp, was compared; distinct by stream digest",
		Assume: []string{
			"not generated because the statement leaves them open: an explicit timestamp of value 0 followed by compressed records; field 253 in a message or definition the profile does not know",
			"struct-field positions come from the hook table (C15)",
		},
		MinNontrivial: 500,
		Families: []lib.Family{
			{Name: "sequences", N: func(t string) uint64 { return tierN(t, 100000, 2000000) }, Run: c12Case},
			{Name: "chains", N: func(t string) uint64 { return tierN(t, 6000, 200000) }, Run: c12Chain},
			{Name: "order-pairs", N: func(t string) uint64 { return uint64(len(orderPairFields(true))) }, Run: func(c *lib.Ctx, idx uint64) { orderPairs(c, orderPairFields(true)[idx]) }},
			{Name: "zone-grid", N: func(t string) uint64 { return uint64(len(zoneGridOffsets())) * 2 }, Run: c12ZoneGrid},
			{Name: "top-of-range", N: func(t string) uint64 { return 31 * 32 * 2 }, Run: c12Top},
		},
	})
}

// messages with a local_date_time field in the profile: activity(34).local_timestamp=5,
// monitoring(55).local_timestamp=11, monitoring_info(103).local_timestamp=0,
// schedule(28).scheduled_time=6.
var c12Mesgs = map[byte][]uint16{
	4:  {20, 20, 20, 21, 19, 34, 34, 23, 49, 78, 18},
	32: {55, 55, 55, 103, 23, 49},
	15: {55, 55, 103, 23},
	7:  {28, 28, 49},
	6:  {20, 20, 32, 32, 32, 19, 49}, // course_point: a message whose "timestamp" is field 1 and that has no field 253
}

// zoneGridOffsets: local-minus-UTC differences on the quarter-hour grid from -30 h to +30 h, each
// also 1, 7 and 59 seconds to either side, and a few far-out values.
func zoneGridOffsets() []int64 {
	var out []int64
	for k := int64(-120); k <= 120; k++ {
		for _, d := range []int64{0, 1, -1, 7, -7, 59, -59} {
			out = append(out, k*900+d)
		}
	}
	for _, far := range []int64{86400, -86400, 86399, 100000, -100000, 1 << 24, -(1 << 24), 1<<30 - 1, -(1 << 30), 600000000, -600000000} {
		out = append(out, far)
	}
	return out
}

// zoneGridPlan: an activity file with one record giving the UTC reference R and activity /
// monitoring-style messages whose local timestamp is R + off (and R itself, offset 0).
func zoneGridPlan(off int64, arch byte) *ref.Plan {
	const R = 0x3B9ACA00 // 1 000 000 000 s after the FIT epoch
	put := func(v uint64) []byte {
		b := make([]byte, 4)
		ref.Put(b, v, 4, arch)
		return b
	}
	p := &ref.Plan{HeaderSize: 14, Proto: 0x20, ProfVer: 2115}
	p.Records = append(p.Records,
		ref.Record{IsDef: true, Local: 0, Global: 0, Fields: []ref.FieldDef{{Num: 0, Size: 1, Base: 0}}},
		ref.Record{Local: 0, Data: [][]byte{{4}}},
		ref.Record{IsDef: true, Local: 1, Arch: arch, Global: 20, Fields: []ref.FieldDef{{Num: 253, Size: 4, Base: 0x86}}},
		ref.Record{Local: 1, Data: [][]byte{put(R)}},
		ref.Record{IsDef: true, Local: 2, Arch: arch, Global: 34, Fields: []ref.FieldDef{{Num: 253, Size: 4, Base: 0x86}, {Num: 5, Size: 4, Base: 0x86}}},
		ref.Record{Local: 2, Data: [][]byte{put(R), put(uint64(R + off))}},
		ref.Record{Local: 2, Data: [][]byte{put(R + 10), put(R + 10)}},
		ref.Record{Local: 2, Data: [][]byte{put(R + 20), put(uint64(R + 20 + off))}},
	)
	return p
}

// c12Top: an explicit timestamp T in the last 31 seconds of the 32-bit range and one compressed
// record whose offset advances it without leaving the range - up to and including 0xFFFFFFFF,
// which as an ADVANCED reference is a time like any other (the invalid value is a matter of
// date_time fields as written) - then an explicit timestamp again and a second compressed run.
func c12Top(c *lib.Ctx, idx uint64) {
	arch := byte(idx % 2)
	t0 := uint64(0xFFFFFFE0 + idx/2%31) // 0xFFFFFFE0 .. 0xFFFFFFFE
	off := byte(idx / 62 % 32)
	adv := (uint64(off) - t0&31) & 31
	if t0+adv > 0xFFFFFFFF {
		return // this offset would leave the range
	}
	put := func(v uint64) []byte {
		b := make([]byte, 4)
		ref.Put(b, v, 4, arch)
		return b
	}
	p := &ref.Plan{HeaderSize: 14, Proto: 0x20, ProfVer: 2115}
	p.Records = append(p.Records,
		ref.Record{IsDef: true, Local: 0, Global: 0, Fields: []ref.FieldDef{{Num: 0, Size: 1, Base: 0}}},
		ref.Record{Local: 0, Data: [][]byte{{4}}},
		ref.Record{IsDef: true, Local: 1, Arch: arch, Global: 20, Fields: []ref.FieldDef{{Num: 253, Size: 4, Base: 0x86}, {Num: 3, Size: 1, Base: 0x02}}},
		ref.Record{Local: 1, Data: [][]byte{put(t0), {60}}},
		ref.Record{IsDef: true, Local: 2, Arch: arch, Global: 20, Fields: []ref.FieldDef{{Num: 3, Size: 1, Base: 0x02}}},
		ref.Record{Local: 2, Compressed: true, TimeOffset: off, Data: [][]byte{{61}}},
		ref.Record{Local: 1, Data: [][]byte{put(0x3B9ACA00), {62}}},
		ref.Record{Local: 2, Compressed: true, TimeOffset: byte((0x3B9ACA00 + 5) & 31), Data: [][]byte{{63}}},
	)
	if ex, _, ok := checkPlanDecode(c, p, "top_", true); ok && ex != nil {
		c.Count("compressed_records_advanced_into_the_last_seconds_of_the_range", 1)
		if t0+adv == 0xFFFFFFFF {
			c.Count("compressed_records_advanced_to_0xFFFFFFFF", 1)
		}
		c.Nontrivial(p.Bytes())
	}
}

func c12ZoneGrid(c *lib.Ctx, idx uint64) {
	offs := zoneGridOffsets()
	off := offs[idx/2]
	plan := zoneGridPlan(off, byte(idx%2))
	if ex, _, ok := checkPlanDecode(c, plan, "zone_grid_", true); ok && ex != nil {
		c.Count("zone_offsets_on_the_grid_compared", 1)
		c.Nontrivial(plan.Bytes())
	}
}

func c12Case(c *lib.Ctx, idx uint64) {
	rng := lib.NewRand("C12.sequences", idx)
	plan := c12Plan(rng, idx)
	c12Check(c, plan)
}

// c12Chain: the reference timestamp is per file.
func c12Chain(c *lib.Ctx, idx uint64) {
	rng := lib.NewRand("C12.chains", idx)
	n := 2 + rng.Intn(2)
	var plans []*ref.Plan
	var chain []byte
	for i := 0; i < n; i++ {
		p := c12Plan(rng, idx+uint64(i))
		plans = append(plans, p)
		chain = append(chain, p.Bytes()...)
	}
	c.SetInflight(chain)
	res := lib.CallResult{}
	o := lib.Guard(func() { res = lib.Call("DecodeChained", lib.NewReader(chain, lib.Chunker{Kind: "whole"})) })
	c.Eval()
	if o.Panicked || o.Hang {
		c.Violation(chain, "DecodeChained panicked/hung: %s", o.Panic)
		return
	}
	if res.Err != nil || len(res.Files) != n {
		c.Violation(chain, "DecodeChained over %d well-formed files: %d files, error %v", n, len(res.Files), res.Err)
		return
	}
	for i, p := range plans {
		ex, err := lib.Expect(p, lib.ExpectOpts{})
		if err != nil || ex.Fail {
			return
		}
		if diffs := lib.CompareContent(ex.Content, lib.FileContent(res.Files[i]), lib.CompareOpts{Header: true, Skip: compSkip(p, ex)}); len(diffs) > 0 {
			c.Violation(chain, "file %d of a chain: time fields differ from the rules applied to this file alone: %s", i+1, lib.DiffsString(diffs, 3))
			return
		}
	}
	c.Count("chains", 1)
	c.Nontrivial(chain)
}

func c12Plan(rng *lib.Rand, idx uint64) *ref.Plan {
	fts := []byte{4, 4, 32, 15, 7, 6}
	ft := fts[idx%uint64(len(fts))]
	nrec := 10 + rng.Intn(40)
	if rng.Chance(1, 20) {
		nrec = 200 + rng.Intn(100)
	}
	o := lib.GenOpts{
		FileType:   ft,
		Mesgs:      c12Mesgs[ft],
		Records:    nrec,
		Locals:     1 + rng.Intn(4),
		Redefine:   8,
		BigEndian:  50,
		Unknown:    15,
		Compressed: 20 + rng.Intn(70),
		MaxFields:  4,
		NoTimeZero: true,
		TimeModel:  50,
		RepeatPrev: 8,
		ForceFields: func(r *lib.Rand, g uint16) []byte {
			var out []byte
			if r.Chance(6, 10) {
				out = append(out, 253)
			}
			if r.Chance(5, 10) {
				switch g {
				case 34:
					out = append(out, 5)
				case 55:
					out = append(out, 11)
				case 103:
					out = append(out, 0)
				case 28:
					out = append(out, 6)
				}
			}
			return out
		},
	}
	g := lib.NewPlanGen(rng, o)
	return g.Fill()
}

func c12Check(c *lib.Ctx, plan *ref.Plan) {
	ex, _, ok := checkPlanDecode(c, plan, "", true)
	if !ok || ex == nil {
		return
	}
	// Coverage: what the reference state machine went through.
	st := timeStats(plan)
	c.Count("compressed_with_reference", int64(st.compWithRef))
	c.Count("compressed_without_reference", int64(st.compNoRef))
	c.Count("rollovers", int64(st.rollovers))
	c.Count("explicit_timestamps", int64(st.explicit))
	c.Count("local_with_reference", int64(st.localRef))
	c.Count("local_without_reference", int64(st.localNoRef))
	c.Count("compressed_unknown_or_untimed_message", int64(st.compUntimed))
	for o, n := range st.offsets {
		if n > 0 {
			c.Count(fmt.Sprintf("offset_%02d", o), int64(n))
		}
	}
	c.Count(fmt.Sprintf("longest_compressed_run_%s", bucket(st.longestRun)), 1)
	if st.compWithRef > 0 || st.localRef+st.localNoRef > 0 {
		c.Nontrivial(plan.Bytes())
	}
	c.Sample("sequence", 2, map[string]interface{}{"records": len(plan.Records), "compressed_with_reference": st.compWithRef, "rollovers": st.rollovers, "local": st.localRef + st.localNoRef, "longest_run": st.longestRun})
}

type tstats struct {
	compWithRef, compNoRef, rollovers, explicit, localRef, localNoRef, compUntimed, longestRun int
	offsets                                                                                    [32]int
}

// timeStats replays the plan through the reference interpreter record by
// record and notes which timestamp situations occurred.
func timeStats(p *ref.Plan) tstats {
	var st tstats
	prof := lib.Profile()
	it := ref.NewInterp(prof)
	run := 0
	for i := range p.Records {
		r := &p.Records[i]
		hadRef, before := it.HasRef, it.Ref
		if !r.IsDef {
			d := it.Defs[r.Local]
			if d != nil {
				if r.Compressed {
					run++
					if run > st.longestRun {
						st.longestRun = run
					}
					st.offsets[r.TimeOffset&31]++
					if hadRef {
						st.compWithRef++
						if uint32(r.TimeOffset&31) < before&31 {
							st.rollovers++
						}
					} else {
						st.compNoRef++
					}
					if pf := prof.Field(d.Global, 253); pf == nil || !prof.Known[d.Global] {
						st.compUntimed++
					}
				} else {
					run = 0
				}
				if prof.Known[d.Global] {
					for k, f := range d.Fields {
						pf := prof.Field(d.Global, f.Num)
						if pf == nil || k >= len(r.Data) {
							continue
						}
						if pf.Kind == ref.KTimeUTC && pf.Num == 253 {
							st.explicit++
						}
						if pf.Kind == ref.KTimeLocal {
							if it.HasRef && it.Ref >= 0x10000000 {
								st.localRef++
							} else {
								st.localNoRef++
							}
						}
					}
				}
			}
		}
		if _, err := it.Feed(r); err != nil {
			break
		}
	}
	return st
}
