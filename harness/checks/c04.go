package checks

import (
	"bytes"
	"fmt"
	"os"
	"path/filepath"
	"runtime"
	"sync"

	"github.com/tormoder/fit"

	"verifharness/lib"
	"verifharness/ref"
)

func init() { registrars = append(registrars, registerC04) }

func registerC04() {
	lib.Register(&lib.Check{
		ID:    "C04",
		Level: "fault_enumeration",
		Rule: "family bursts: base files = small model files of all 17 types (12- and 14-byte headers, header CRC zero and non-zero), Encode outputs in both byte orders and " +
			"the device files of at most 256 bytes, each verified to pass CheckIntegrity; for every bit position p (serial order of the checksum: 8*byte+bit, bit 0 = LSB) and " +
			"XOR patterns of span <= 16 bits starting at p that stay clear of byte 0 and bytes 4-7: quick = all 1- and 2-bit patterns at every position plus all 2^15 patterns at " +
			"every 29th position, thorough = all 2^15 patterns at every position; Decode (every fifth time with the unknown-item options and a logger) and CheckIntegrity must both return an error. Family headers: header sizes x protocol " +
			"versions x profile versions x stored CRC {correct, 0, each single-bit error, PRNG} and every single-byte corruption of bytes 1-3, 8-13 of a correct 14-byte header, " +
			"each inside an otherwise valid file with recomputed file CRC: CheckIntegrity(headerOnly), DecodeHeader, Decode and Header.CheckIntegrity - and DecodeHeaderAndFileID, DecodeChained and CheckIntegrity over the whole file, which read the header on their way - must all agree with the " +
			"reference verdict. Family vendor-bursts: small files whose file_id names every (manufacturer, product) pair drawn from the integer values that occur in the library's own hand-written sources (literals and named constants, read from the tree under test at check time), each corrupted at single bits of its record data: Decode and CheckIntegrity must both return an error. Family large-bursts: model streams of 5-120 KB and the device files up to 400 KB, each corrupted at 400 (quick) / 3000 (thorough) PRNG bit positions (concentrated around the decoder's 4096-byte buffer boundaries, record boundaries and the trailing CRC) with PRNG burst patterns of span <= 16. Family accepted: every output of a successful Encode of an API-built File (into a plain buffer, a file on disk, a bytes.Buffer already holding data, a bufio.Writer, a seekable in-memory writer; 12- and 14-byte headers; one file of 67 MB - thorough: also 135 and 270 MB) must pass CheckIntegrity; streams Decode accepts (model, device, Encode output, model streams padded to data sizes at and around multiples of the 4096-byte read buffer, and streams whose header lies about the data size - 0, 1, true +-1 ... - with and without trailer) must pass CheckIntegrity. A case is one corrupted file; distinct by construction",
		Assume:        []string{"'contiguous bits' are contiguous in the order the reflected CRC consumes them (LSB first); any error counts as detection"},
		MinNontrivial: 20000,
		Families386:   []string{"headers", "vendor-bursts", "large-bursts"},
		Families: []lib.Family{
			{Name: "bursts", N: func(t string) uint64 { return uint64(c04NumBase) * 2048 }, Run: c04Burst, Batch: 64},
			{Name: "headers", N: func(t string) uint64 { return 2 * 5 * 64 }, Run: c04Headers},
			{Name: "header-bytes", N: func(t string) uint64 { return 9 }, Run: c04HeaderBytes},
			{Name: "accepted", N: func(t string) uint64 { return tierN(t, 3000, 200000) }, Run: c04Accepted},
			{Name: "vendor-bursts", N: func(t string) uint64 { n := uint64(len(c04Dict())); return n * n }, Run: c04VendorBursts},
			{Name: "large-bursts", N: func(t string) uint64 {
				if runtime.GOARCH == "386" {
					return 60 // the second pass on the 32-bit build keeps the quick-tier count in both tiers
				}
				return tierN(t, 60, 2000)
			}, Run: c04LargeBursts},
		},
		Exhaustive: func(t string) bool { return t == "thorough" },
	})
}

const c04NumBase = 54

var (
	c04BaseOnce sync.Once
	c04Base     [][]byte
	c04BaseName []string
)

func c04BaseFiles() ([][]byte, []string) {
	c04BaseOnce.Do(func() {
		add := func(b []byte, name string) {
			if len(b) <= 256 && len(c04Base) < c04NumBase {
				c04Base = append(c04Base, b)
				c04BaseName = append(c04BaseName, name)
			}
		}
		// 34 model files: 17 types x two header forms.
		for i := 0; i < 34; i++ {
			rng := lib.NewRand("C04.base", uint64(i))
			ft := lib.FileTypes[i%17].Type
			hs := byte(14)
			if i >= 17 && i%3 == 0 {
				hs = 12
			}
			o := lib.GenOpts{FileType: ft, Mesgs: lib.HostedMesgs(ft), Records: 2 + rng.Intn(2), Locals: 1 + rng.Intn(2), BigEndian: 50, MaxFields: 2, HeaderSize: hs, FixedWidthOnly: true,
				ExcludeFields: func(g uint16, num byte) bool {
					pf := lib.Profile().Field(g, num)
					return pf != nil && (pf.Array || ref.BaseTypes[pf.Base].Code == 7)
				}}
			g := lib.NewPlanGen(rng, o)
			p := g.Fill()
			if hs == 14 {
				p.HeaderCRCZero = i%5 == 4
			}
			add(p.Bytes(), fmt.Sprintf("model#%d(type %d, header %d)", i, ft, hs))
		}
		// 10 richer model files: unknown messages and fields, developer fields, compressed timestamps,
		// narrow definitions, strings and arrays: bytes the decoder skips must be covered by the CRC too.
		for i := 0; len(c04Base) < 44 && i < 400; i++ {
			rng := lib.NewRand("C04.base.rich", uint64(i))
			ft := lib.FileTypes[i%17].Type
			o := lib.GenOpts{FileType: ft, Mesgs: lib.HostedMesgs(ft), Records: 2 + rng.Intn(3), Locals: 1 + rng.Intn(3), BigEndian: 50, MaxFields: 3,
				Unknown: 80, Compressed: 40, Narrow: 30, NoTimeZero: true}
			p := lib.NewPlanGen(rng, o).Fill()
			hasDev := false
			for _, r := range p.Records {
				if r.IsDef && r.HasDev && len(r.Dev) > 0 {
					hasDev = true
				}
			}
			if b := p.Bytes(); len(b) <= 256 && hasDev {
				add(b, fmt.Sprintf("rich-model#%d(type %d)", i, ft))
			}
		}
		// 6 Encode outputs.
		for i := 0; i < 6; i++ {
			rng := lib.NewRand("C04.enc", uint64(i))
			f := lib.GenFile(rng, lib.FileGenOpts{FileType: lib.FileTypes[(i*5)%17].Type, MaxPerSlot: 1, Subset: 2, HeaderCRC: 1 + i%2})
			if f == nil {
				continue
			}
			out, err, o := lib.GuardedEncode(f, archOrder(i%2))
			if err == nil && !o.Panicked {
				add(out, fmt.Sprintf("encode#%d", i))
			}
		}
		for _, cf := range Corpus() {
			if p, err := ref.Parse(cf.Data, ref.ParseOptions{}); err == nil && p.FrameLen == len(cf.Data) {
				add(cf.Data, cf.Path)
			}
		}
	})
	return c04Base, c04BaseName
}

var detectRot uint32

// detect runs Decode and CheckIntegrity on b; every fifth call Decode runs with the unknown-item
// options and a logger instead (options must not turn a detected corruption into success).
func detect(b []byte) (decodeErr, integrityErr error, panicked string) {
	detectRot++
	o := lib.Guard(func() {
		if detectRot%5 == 0 {
			_, decodeErr = fit.Decode(bytes.NewReader(b), fit.WithUnknownFields(), fit.WithUnknownMessages(), fit.WithLogger(&countingLogger{}))
		} else {
			_, decodeErr = fit.Decode(bytes.NewReader(b))
		}
		integrityErr = fit.CheckIntegrity(bytes.NewReader(b), false)
	})
	if o.Panicked || o.Hang {
		panicked = o.Panic + " hang=" + fmt.Sprint(o.Hang)
	}
	return
}

func c04Burst(c *lib.Ctx, idx uint64) {
	base, names := c04BaseFiles()
	fi := int(idx / 2048)
	p := int(idx % 2048)
	if fi >= len(base) {
		return
	}
	orig := base[fi]
	nbits := len(orig) * 8
	if p >= nbits {
		return
	}
	if p == 0 {
		// The base file itself must be accepted.
		d, i, pn := detect(orig)
		c.EvalN(2)
		if pn != "" {
			c.Violation(orig, "base file %s: panic: %s", names[fi], pn)
			return
		}
		if d != nil {
			// Whether Decode accepts a well-formed model file is C02's subject; here the file is just not usable.
			c.Count("base_files_not_accepted_by_decode", 1)
			return
		}
		if i != nil {
			c.Violation(orig, "Decode accepts base file %s but CheckIntegrity rejects it: %v", names[fi], i)
			return
		}
		c.Count("base_files", 1)
		c.Count("base_file_bytes", int64(len(orig)))
	}
	excluded := func(bit int) bool {
		by := bit / 8
		return by == 0 || by >= 4 && by <= 7
	}
	if excluded(p) {
		return
	}
	full := c.Tier == "thorough" || p%29 == 0
	buf := make([]byte, len(orig))
	n := int64(0)
	try := func(mask uint32) bool {
		span := 0
		for i := 15; i >= 0; i-- {
			if mask>>uint(i)&1 != 0 {
				span = i + 1
				break
			}
		}
		if p+span > nbits {
			return true
		}
		for i := 0; i < span; i++ {
			if excluded(p + i) {
				return true // the burst would touch a size field
			}
		}
		copy(buf, orig)
		for i := 0; i < span; i++ {
			if mask>>uint(i)&1 != 0 {
				bit := p + i
				buf[bit/8] ^= 1 << uint(bit%8)
			}
		}
		d, ie, pn := detect(buf)
		n++
		if n&1023 == 0 {
			c.Tick()
		}
		if pn != "" {
			c.Violation(buf, "corrupted %s (burst %#x at bit %d): panic: %s", names[fi], mask, p, pn)
			return false
		}
		if d == nil || ie == nil {
			c.Violation(buf, "corruption of %s not detected: XOR pattern %#06x (span %d bits) at bit %d (byte %d): Decode error %v, CheckIntegrity error %v", names[fi], mask, span, p, p/8, d, ie)
			return false
		}
		return true
	}
	if full {
		for m := uint32(1); m < 1<<16; m += 2 {
			if !try(m) {
				break
			}
		}
		c.Count("positions_all_patterns", 1)
	} else {
		if try(1) {
			for i := 1; i < 16; i++ {
				if !try(1 | 1<<uint(i)) {
					break
				}
			}
		}
		c.Count("positions_1_2_bit_patterns", 1)
	}
	c.EvalN(2 * n)
	c.NontrivialN(n)
	if p == 96 {
		c.Sample("burst", 2, map[string]interface{}{"file": names[fi], "bit_position": p, "patterns": n})
	}
}

// headerVerdict is the reference: accept iff protocol major <= 2, data type
// ".FIT", and (12-byte header, or stored CRC 0, or stored CRC == CRC of bytes 0..11).
func headerVerdict(h []byte) bool {
	if h[1]>>4 > 2 {
		return false
	}
	if string(h[8:12]) != ".FIT" {
		return false
	}
	if h[0] == 12 {
		return true
	}
	crc := uint16(h[12]) | uint16(h[13])<<8
	return crc == 0 || crc == ref.CRC(h[:12])
}

// judgeHeader runs the four header-checking APIs on a file with header h and
// otherwise valid content.
func judgeHeader(c *lib.Ctx, h []byte, rest []byte, what string) bool {
	file := append(append([]byte{}, h...), rest...)
	crc := ref.CRC(file)
	file = append(file, byte(crc), byte(crc>>8))
	want := headerVerdict(h)
	var e1, e2, e3, e4, e5, e6, e7 error
	o := lib.Guard(func() {
		e1 = fit.CheckIntegrity(bytes.NewReader(file), true)
		_, e2 = fit.DecodeHeader(bytes.NewReader(file))
		_, e3 = fit.Decode(bytes.NewReader(file))
		hd := fit.Header{Size: h[0], ProtocolVersion: h[1], ProfileVersion: uint16(h[2]) | uint16(h[3])<<8,
			DataSize: uint32(h[4]) | uint32(h[5])<<8 | uint32(h[6])<<16 | uint32(h[7])<<24}
		copy(hd.DataType[:], h[8:12])
		if h[0] == 14 {
			hd.CRC = uint16(h[12]) | uint16(h[13])<<8
		}
		e4 = hd.CheckIntegrity()
		// the other entry points that read a header on their way
		_, _, e5 = fit.DecodeHeaderAndFileID(bytes.NewReader(file))
		_, e6 = fit.DecodeChained(bytes.NewReader(file))
		e7 = fit.CheckIntegrity(bytes.NewReader(file), false)
	})
	c.EvalN(7)
	if o.Panicked || o.Hang {
		c.Violation(file, "%s: panic: %s", what, o.Panic)
		return false
	}
	got := []bool{e1 == nil, e2 == nil, e3 == nil, e4 == nil, e5 == nil, e6 == nil, e7 == nil}
	names := []string{"CheckIntegrity(headerOnly)", "DecodeHeader", "Decode", "Header.CheckIntegrity", "DecodeHeaderAndFileID", "DecodeChained", "CheckIntegrity(whole file)"}
	for i := range got {
		if got[i] != want {
			c.Violation(file, "%s (header % x): %s accepts=%v, the reference verdict is accept=%v (errors: %v | %v | %v | %v | %v | %v | %v)", what, h, names[i], got[i], want, e1, e2, e3, e4, e5, e6, e7)
			return false
		}
	}
	if want {
		c.Count("headers_accepted", 1)
	} else {
		c.Count("headers_rejected", 1)
	}
	c.NontrivialN(1)
	return true
}

func c04Rest(rng *lib.Rand, k int) (rest []byte) {
	ft := lib.FileTypes[k%17].Type
	o := lib.GenOpts{FileType: ft, Mesgs: lib.HostedMesgs(ft), Records: k % 7, Locals: 1, MaxFields: 2, HeaderSize: 14, FixedWidthOnly: true}
	return lib.NewPlanGen(rng, o).Fill().DataBytes()
}

func c04Headers(c *lib.Ctx, idx uint64) {
	hs := []byte{12, 14}[idx%2]
	proto := []byte{0x10, 0x20, 0x21, 0x2F, 0x30}[idx/2%5]
	pvi := idx / 10
	rng := lib.NewRand("C04.headers", idx)
	profver := uint16(rng.U64())
	if pvi < 4 {
		profver = []uint16{0, 2115, 0xFFFF, 100}[pvi]
	}
	rest := c04Rest(rng, int(idx))
	h := make([]byte, hs)
	h[0], h[1], h[2], h[3] = hs, proto, byte(profver), byte(profver>>8)
	n := len(rest)
	h[4], h[5], h[6], h[7] = byte(n), byte(n>>8), byte(n>>16), byte(n>>24)
	copy(h[8:12], ".FIT")
	if hs == 12 {
		judgeHeader(c, h, rest, "12-byte header")
		return
	}
	good := ref.CRC(h[:12])
	cands := []uint16{good, 0, uint16(rng.U64()), uint16(rng.U64()), ^good, good + 1}
	for k := 0; k < 16; k++ {
		cands = append(cands, good^1<<uint(k))
	}
	for _, crc := range cands {
		h[12], h[13] = byte(crc), byte(crc>>8)
		if !judgeHeader(c, h, rest, fmt.Sprintf("14-byte header, stored CRC %#04x (correct %#04x)", crc, good)) {
			return
		}
	}
	if idx == 1 {
		c.Sample("header", 1, map[string]interface{}{"header_hex": fmt.Sprintf("%x", h), "stored_crc_variants": len(cands)})
	}
}

// c04HeaderBytes: every single-byte corruption of bytes 1-3 and 8-13 of a correct 14-byte header.
func c04HeaderBytes(c *lib.Ctx, idx uint64) {
	pos := []int{1, 2, 3, 8, 9, 10, 11, 12, 13}[idx]
	rng := lib.NewRand("C04.header-bytes", idx)
	rest := c04Rest(rng, 3)
	p := &ref.Plan{HeaderSize: 14, Proto: 0x20, ProfVer: 2115}
	h0 := p.HeaderBytes(len(rest))
	for v := 0; v < 256; v++ {
		h := append([]byte{}, h0...)
		h[pos] = byte(v)
		if !judgeHeader(c, h, rest, fmt.Sprintf("correct 14-byte header with byte %d set to %#02x", pos, v)) {
			return
		}
	}
}

func c04Accepted(c *lib.Ctx, idx uint64) {
	rng := lib.NewRand("C04.accepted", idx)
	var b []byte
	if idx == 5 || c.Tier == "thorough" && (idx == 21 || idx == 37) {
		// A file that Encode produced passes CheckIntegrity, however large: 290 000 (580 000,
		// 1 160 000) session messages, 67 (135, 270) MB on the wire.
		n := map[uint64]int{5: 290000, 21: 580000, 37: 1160000}[idx]
		f, err := fit.NewFile(fit.FileTypeActivity, fit.NewHeader(fit.V20, idx != 21))
		if err != nil {
			return
		}
		f.FileId = *fit.NewFileIdMsg()
		f.FileId.Type = fit.FileTypeActivity
		a, _ := f.Activity()
		m := fit.VerifNewMesg(18)
		lib.FillMesg(rng, 18, m, &lib.FileGenOpts{Subset: 4})
		s, ok := m.Interface().(*fit.SessionMsg)
		if !ok || a == nil {
			return
		}
		a.Sessions = make([]*fit.SessionMsg, n)
		for i := range a.Sessions {
			a.Sessions[i] = s
			if i&0xFFF == 0 {
				c.Tick()
			}
		}
		var buf bytes.Buffer
		var eerr error
		o := lib.Guard(func() { eerr = fit.Encode(&buf, f, archOrder(int(idx/16)%2)) })
		c.Eval()
		if o.Panicked || eerr != nil {
			return // encodability is C05's subject
		}
		out := buf.Bytes()
		c.SetInflight(out[:4096])
		var ierr error
		io := lib.Guard(func() { ierr = fit.CheckIntegrity(bytes.NewReader(out), false) })
		c.Eval()
		if io.Panicked || ierr != nil {
			c.Violation(out[:4096], "Encode wrote a file of %d bytes (%d session messages) and returned nil, but CheckIntegrity rejects it: %v %s", len(out), n, ierr, io.Panic)
			return
		}
		var herr error
		lib.Guard(func() { _, herr = fit.DecodeHeader(bytes.NewReader(out)) })
		if herr != nil {
			c.Violation(out[:4096], "DecodeHeader rejects the header of a file of %d bytes that Encode wrote: %v", len(out), herr)
			return
		}
		c.Count("encoded_files_larger_than_64_MiB_passing_integrity", 1)
		c.Count("largest_encoded_file_bytes", int64(len(out)))
		c.Nontrivial(out[:4096], []byte{byte(idx)})
		return
	}
	if idx%16 == 13 {
		// Streams whose header lies about the data size (0 as an interrupted recording leaves
		// it, 1, the true size +-1, +2, twice the size), with the trailing CRC absent, left as
		// it was, or recomputed: whatever of these Decode accepts must pass CheckIntegrity.
		p := c07Plan(rng, idx|1)
		full := p.Bytes()
		hs := int(full[0])
		n := len(full) - hs - 2
		v := []int{0, 0, 1, n - 1, n + 1, n + 2, 2 * n, n - 2}[int(idx/16)%8]
		if v < 0 {
			v = 0
		}
		x := append([]byte{}, full...)
		x[4], x[5], x[6], x[7] = byte(v), byte(v>>8), byte(v>>16), byte(v>>24)
		if hs == 14 && (x[12] != 0 || x[13] != 0) {
			hc := ref.CRC(x[:12])
			x[12], x[13] = byte(hc), byte(hc>>8)
		}
		switch int(idx/128) % 3 {
		case 0:
			x = x[:len(x)-2] // no trailer
		case 1:
			fc := ref.CRC(x[:len(x)-2])
			x[len(x)-2], x[len(x)-1] = byte(fc), byte(fc>>8)
		}
		c.SetInflight(x)
		_, derr, o := lib.GuardedDecode(x)
		c.Eval()
		c.Count("data_size_lies_tried", 1)
		if o.Panicked || o.Hang || derr != nil {
			return
		}
		var ierr error
		io := lib.Guard(func() { ierr = fit.CheckIntegrity(bytes.NewReader(x), false) })
		c.Eval()
		if io.Panicked || ierr != nil {
			c.Violation(x, "Decode accepts a stream whose header gives data size %d (%d record bytes follow) but CheckIntegrity rejects it: %v %s", v, n, ierr, io.Panic)
			return
		}
		c.Count("data_size_lies_accepted_by_both", 1)
		return
	}
	switch idx % 4 {
	case 3:
		// data sizes at and around multiples of the decoder's 4096-byte buffer
		p := c07Plan(rng, idx)
		k := 1 + int(idx/4)%4
		target := 4096*k + []int{0, 0, -1, 1, 0, 2}[int(idx/16)%6]
		if k == 4 {
			target = 4096 * []int{5, 8, 10, 16}[int(idx/16)%4]
		}
		if !lib.PadPlanToDataSize(p, rng, target) {
			return
		}
		b = p.Bytes()
		c.Count(fmt.Sprintf("data_size_mod_4096_is_%d", target%4096), 1)
	case 0:
		b = c07Plan(rng, idx).Bytes()
	case 1:
		// "A file that Encode produced passes CheckIntegrity": whatever the destination's
		// dynamic type and whether or not the header carries a CRC.
		f, _, arch := genRoundTripFile(rng, idx, false)
		if f == nil {
			return
		}
		kind := int(idx/4) % 5
		var out []byte
		var err error
		o := lib.Outcome{}
		if kind == 4 {
			out, err, o = lib.GuardedEncode(f, archOrder(arch))
		} else {
			o = lib.Guard(func() { out, err = encodeInto(kind, f, archOrder(arch), nil) })
		}
		if err != nil || o.Panicked || out == nil {
			return // encodability is C05's subject
		}
		c.SetInflight(out)
		var ierr error
		io := lib.Guard(func() { ierr = fit.CheckIntegrity(bytes.NewReader(out), false) })
		c.Eval()
		if io.Panicked || ierr != nil {
			c.Violation(out, "Encode (destination kind %d, header size %d) returned nil but CheckIntegrity rejects what it wrote: %v %s", kind, f.Header.Size, ierr, io.Panic)
			return
		}
		c.Count(fmt.Sprintf("encoded_files_passing_integrity_hdr%d", f.Header.Size), 1)
		b = out
	default:
		files := Corpus()
		cf := files[int(idx/4)%len(files)]
		if len(cf.Data) > 400000 && idx > 300 {
			return
		}
		b = cf.Data
	}
	c.SetInflight(b)
	_, derr, o := lib.GuardedDecode(b)
	c.Eval()
	if o.Panicked || o.Hang || derr != nil {
		return
	}
	var ierr error
	io := lib.Guard(func() { ierr = fit.CheckIntegrity(bytes.NewReader(b), false) })
	c.Eval()
	if io.Panicked || ierr != nil {
		c.Violation(b, "Decode accepts the stream but CheckIntegrity rejects it: %v %s", ierr, io.Panic)
		return
	}
	c.Count("accepted_streams_passing_integrity", 1)
	if idx%3 == 1 {
		// the verdicts must not depend on what kind of reader delivers the bytes: a pipe (an
		// *os.File whose Stat reports size 0 and that cannot seek) and a regular file on disk
		for k := 0; k < 2; k++ {
			var rd *os.File
			var cleanup func()
			if k == 0 {
				pr, pw, err := os.Pipe()
				if err != nil {
					continue
				}
				go func() { pw.Write(b); pw.Close() }()
				rd, cleanup = pr, func() { pr.Close() }
			} else {
				dir := filepath.Join(lib.OutDir(), "work", "C04-files")
				os.MkdirAll(dir, 0o755)
				p := filepath.Join(dir, fmt.Sprintf("acc-%d.fit", os.Getpid()))
				if os.WriteFile(p, b, 0o644) != nil {
					continue
				}
				fh, err := os.Open(p)
				if err != nil {
					continue
				}
				rd, cleanup = fh, func() { fh.Close(); os.Remove(p) }
			}
			var e error
			o := lib.Guard(func() {
				if idx%2 == 0 {
					e = fit.CheckIntegrity(rd, false)
				} else {
					_, e = fit.Decode(rd)
				}
			})
			cleanup()
			c.Eval()
			if o.Panicked || e != nil {
				c.Violation(b, "a stream that Decode and CheckIntegrity accept from memory is rejected when read through %s: %v %s", []string{"a pipe (*os.File)", "a file on disk (*os.File)"}[k], e, o.Panic)
				return
			}
			c.Count("accepted_streams_also_through_os_file", 1)
		}
	}
	c.Nontrivial(b)
}

// c04LargeBursts: sampled bursts on larger files (the exhaustive enumeration is confined to small ones).
func c04LargeBursts(c *lib.Ctx, idx uint64) {
	rng := lib.NewRand("C04.large-bursts", idx)
	var orig []byte
	label := ""
	files := Corpus()
	if idx%3 == 0 {
		cf := files[int(idx/3)%len(files)]
		if len(cf.Data) > 400000 {
			return
		}
		pp, perr := ref.Parse(cf.Data, ref.ParseOptions{})
		if perr != nil {
			return
		}
		// only the first frame: a chained file's later frames are not read by Decode / CheckIntegrity
		orig, label = cf.Data[:pp.FrameLen], cf.Path
	} else {
		o := c02Opts(rng, idx)
		o.Records = 150 + rng.Intn(3000)
		o.Compressed = 15
		o.NoTimeZero = true
		p := lib.NewPlanGen(rng, o).Fill()
		orig, label = p.Bytes(), fmt.Sprintf("model stream of %d records", len(p.Records))
	}
	d, i, pn := detect(orig)
	if pn != "" {
		c.Violation(orig, "%s: panic: %s", label, pn)
		return
	}
	if d != nil {
		return // not a usable base (acceptance is C02's subject)
	}
	if i != nil {
		c.Violation(orig, "Decode accepts %s but CheckIntegrity rejects it: %v", label, i)
		return
	}
	nbits := len(orig) * 8
	hs := int(orig[0])
	npos := int(tierN(c.Tier, 400, 3000))
	buf := make([]byte, len(orig))
	n := int64(0)
	for k := 0; k < npos; k++ {
		var p int
		switch rng.Intn(4) {
		case 0: // around a buffer boundary of the decoder (data offsets that are multiples of 4096)
			b := hs + 4096*(1+rng.Intn(1+len(orig)/4096))
			p = (b-8+rng.Intn(16))*8 + rng.Intn(8)
		case 1: // the tail: last record and CRC
			p = nbits - 1 - rng.Intn(minInt(nbits-1, 400))
		default:
			p = rng.Intn(nbits)
		}
		if p < 0 || p >= nbits {
			continue
		}
		mask := uint32(rng.U64())&0xFFFF | 1
		if rng.Chance(1, 3) {
			mask = 1 | 1<<uint(rng.Intn(16))
		}
		span := 0
		for b := 15; b >= 0; b-- {
			if mask>>uint(b)&1 != 0 {
				span = b + 1
				break
			}
		}
		if p+span > nbits {
			continue
		}
		bad := false
		for b := 0; b < span; b++ {
			by := (p + b) / 8
			if by == 0 || by >= 4 && by <= 7 {
				bad = true
			}
		}
		if bad {
			continue
		}
		copy(buf, orig)
		for b := 0; b < span; b++ {
			if mask>>uint(b)&1 != 0 {
				buf[(p+b)/8] ^= 1 << uint((p+b)%8)
			}
		}
		de, ie, pn := detect(buf)
		n++
		c.Tick()
		if pn != "" {
			c.Violation(buf, "corrupted %s (burst %#x at bit %d): panic: %s", label, mask, p, pn)
			return
		}
		if de == nil || ie == nil {
			c.Violation(buf, "corruption of %s (%d bytes) not detected: XOR pattern %#06x (span %d) at bit %d (byte %d): Decode error %v, CheckIntegrity error %v", label, len(orig), mask, span, p, p/8, de, ie)
			return
		}
	}
	c.EvalN(2 * n)
	c.NontrivialN(n)
	c.Count("large_files_corrupted", 1)
	c.Count("large_file_bytes", int64(len(orig)))
}

// c04Dict: the source dictionary restricted to 16-bit values.
func c04Dict() []uint16 {
	var out []uint16
	for _, v := range lib.SourceDictionary() {
		if v <= 0xFFFF {
			out = append(out, uint16(v))
		}
	}
	return out
}

// c04VendorBursts: corruption must be detected whoever made the file. The (manufacturer,
// product) pairs come from the integer values that occur in the library's own sources: a
// vendor-specific exception in the code under test names its vendor there.
func c04VendorBursts(c *lib.Ctx, idx uint64) {
	d := c04Dict()
	m, p := d[idx/uint64(len(d))], d[idx%uint64(len(d))]
	arch := byte(idx % 2)
	put16 := func(v uint16) []byte {
		b := make([]byte, 2)
		ref.Put(b, uint64(v), 2, arch)
		return b
	}
	ts := make([]byte, 4)
	ref.Put(ts, 0x3B9ACA00, 4, arch)
	plan := &ref.Plan{HeaderSize: []byte{14, 12}[idx/2%2], Proto: 0x20, ProfVer: 2115}
	plan.Records = append(plan.Records,
		ref.Record{IsDef: true, Local: 0, Arch: arch, Global: 0, Fields: []ref.FieldDef{{Num: 0, Size: 1, Base: 0}, {Num: 1, Size: 2, Base: 0x84}, {Num: 2, Size: 2, Base: 0x84}}},
		ref.Record{Local: 0, Data: [][]byte{{4}, put16(m), put16(p)}},
		ref.Record{IsDef: true, Local: 1, Arch: arch, Global: 20, Fields: []ref.FieldDef{{Num: 253, Size: 4, Base: 0x86}, {Num: 3, Size: 1, Base: 0x02}, {Num: 4, Size: 1, Base: 0x02}}},
		ref.Record{Local: 1, Data: [][]byte{ts, {120}, {80}}},
		ref.Record{Local: 1, Data: [][]byte{ts, {121}, {81}}})
	orig := plan.Bytes()
	c.SetInflight(orig)
	if de, ie, pn := detect(orig); de != nil || ie != nil || pn != "" {
		c.Count("vendor_base_files_not_accepted", 1)
		return
	}
	n := len(orig)
	for _, pos := range []int{n - 3, n - 4, n - 5, n - 9, n - 2, n - 1} {
		for _, bit := range []uint{0, 7} {
			buf := append([]byte{}, orig...)
			buf[pos] ^= 1 << bit
			de, ie, pn := detect(buf)
			c.EvalN(2)
			if pn != "" {
				c.Violation(buf, "corrupted file of manufacturer %d product %d: panic: %s", m, p, pn)
				return
			}
			if de == nil || ie == nil {
				c.Violation(buf, "corruption not detected in a file whose file_id says manufacturer %d, product %d: bit %d of byte %d flipped: Decode error %v, CheckIntegrity error %v", m, p, bit, pos, de, ie)
				return
			}
		}
	}
	c.NontrivialN(12)
	c.Count("vendor_pairs_from_the_source_dictionary", 1)
}
