package checks

import (
	"bufio"
	"bytes"
	"fmt"
	"hash"
	"io"
	"os"
	"os/exec"
	"runtime"
	"runtime/debug"
	"strconv"
	"strings"
	"sync"
	"sync/atomic"
	"syscall"
	"time"

	"github.com/tormoder/fit/dyncrc16"

	"verifharness/lib"
	"verifharness/ref"
)

func init() { registrars = append(registrars, registerC14) }

func registerC14() {
	lib.Register(&lib.Check{
		ID:    "C14",
		Level: "exploration",
		Rule: "family transitions: all 65536 register states x 256 input bytes, the register being driven to each state through the public API by writing the " +
			"two-byte preimage computed with the bit-serial reference (every (state, byte) pair is one distinct non-trivial case); family streaming: PRNG byte strings " +
			"(length 0..5000) x PRNG write partitions, compared with the reference (each part written through Write, io.WriteString / WriteString, WriteByte if offered, io.Copy from strings and bytes readers, or a bufio.Writer), also fed through io.Copy / io.CopyN from short-reading and data-with-EOF readers, Reset, residue and Sum(nil); distinct by string digest; family long-writes: for each of the " +
			"65536 register states s and block offsets 0/4/8/.../28 one single Write of >= 64 bytes that drives the register to s and then feeds it s itself followed by zero bytes " +
			"(the input on which multi-byte-at-a-time and zero-skipping implementations go wrong), compared with the reference and with a byte-wise feed; family lengths: single writes of 30 KB - 2.3 MB (and a few of 4 - 33 MiB) (from zero and non-zero starting states, workers with GOMAXPROCS=4) whose length (and whose halves, thirds, " +
			"quarters and eighths) sit at and around multiples of 32767 - the order of x modulo the CRC polynomial, where implementations that split a write and combine partial sums wrap - plus PRNG long lengths, from PRNG starting states; family shared-input: one byte string of 64 KB - 1 MB (and short ones of 64 - 300 bytes) that lies in memory mapped read-only is written to hashes in non-zero states (a store into the input faults and is reported), and eight goroutines, each with a hash of its own in a state of its own, write one shared slice at the same time, several rounds: every sum must be the reference value for prefix + shared bytes, and the shared bytes must be unchanged afterwards; family huge-write (64-bit platforms): one Write of 2^32 + 4099 bytes (thorough: also 2^32 and 2^33 + 1) of zero pages mapped read-only, on a hash in a non-zero state, compared with the reference advanced by matrix power over the zero run (thorough: also with the same bytes written in two parts); plus fresh processes whose very first use of the package is Checksum (7 bytes - 64 KiB), a new hash fed in several ways, or both from several goroutines at once; plus the same monitor (checksum, split writes, residue, Reset, every register state) built for GOOS=js GOARCH=wasm and run by node when the host has one",
		Assume:        []string{"the bit-serial reference CRC-16/ARC (12 lines, checked against the catalogue check value 0xBB3D) is the specification"},
		MinNontrivial: 1 << 24,
		Families386:   []string{"streaming", "lengths"},
		WorkerProcs:   4, // implementations that split long writes over goroutines only do so with GOMAXPROCS > 1
		Families: []lib.Family{
			{Name: "transitions", N: func(string) uint64 { return 256 }, Run: c14Transitions},
			{Name: "streaming", N: func(t string) uint64 { return tierN(t, 20000, 2000000) }, Run: c14Streaming},
			{Name: "long-writes", N: func(string) uint64 { return 256 }, Run: c14LongWrites},
			{Name: "lengths", N: func(t string) uint64 { return tierN(t, 260, 2600) }, Run: c14Lengths},
			{Name: "shared-input", N: func(t string) uint64 { return tierN(t, 48, 960) }, Run: c14Shared},
			{Name: "huge-write", N: func(t string) uint64 { return tierN(t, 1, 3) }, Run: c14HugeWrite},
		},
		Exhaustive: func(string) bool { return true },
		Main:       c14Wasm,
	})
}

// c14ColdModes: what a process's very first use of the package can be.
var c14ColdModes = []string{
	"Checksum of 300 bytes", "Checksum of 4096 bytes", "Checksum of 7 bytes", "Checksum of 64 KiB",
	"New + one Write of 300 bytes", "New + WriteString / io.WriteString of 5000 bytes", "New + Sum16 + Reset + Write",
	"Checksum and New + Write from two goroutines at once", "Checksum of 300 bytes from eight goroutines at once",
}

// C14Sub: "cold <mode>": a fresh process whose first use of the package is the named one; the
// result is compared with the bit-serial reference. Prints OK or BAD <what>.
func C14Sub(args []string) int {
	if len(args) < 2 || args[0] != "cold" {
		return 2
	}
	mode, _ := strconv.Atoi(args[1])
	mk := func(n int, salt byte) []byte {
		d := make([]byte, n)
		x := uint32(2463534242) + uint32(salt)
		for i := range d {
			x ^= x << 13
			x ^= x >> 17
			x ^= x << 5
			d[i] = byte(x >> 11)
		}
		return d
	}
	bad := func(format string, a ...interface{}) int {
		fmt.Printf("BAD "+format+"\n", a...)
		return 0
	}
	sum := func(n int, salt byte) (uint16, uint16) { d := mk(n, salt); return dyncrc16.Checksum(d), ref.CRC(d) }
	switch mode {
	case 0, 1, 2, 3:
		n := []int{300, 4096, 7, 65536}[mode]
		if got, want := sum(n, 0); got != want {
			return bad("the first call in a process, Checksum of %d bytes: got %#04x, CRC-16/ARC gives %#04x", n, got, want)
		}
	case 4:
		d := mk(300, 1)
		h := dyncrc16.New()
		h.Write(d)
		if h.Sum16() != ref.CRC(d) {
			return bad("the first hash of a process, one Write of 300 bytes: got %#04x, CRC-16/ARC gives %#04x", h.Sum16(), ref.CRC(d))
		}
	case 5:
		d := mk(5000, 2)
		h := dyncrc16.New()
		io.WriteString(h, string(d[:2500]))
		io.Copy(h, bytes.NewReader(d[2500:]))
		if h.Sum16() != ref.CRC(d) {
			return bad("the first hash of a process fed by io.WriteString and io.Copy: got %#04x, CRC-16/ARC gives %#04x", h.Sum16(), ref.CRC(d))
		}
	case 6:
		d := mk(700, 3)
		h := dyncrc16.New()
		if h.Sum16() != 0 {
			return bad("a new hash has sum %#04x", h.Sum16())
		}
		h.Write(d[:100])
		h.Reset()
		h.Write(d)
		if h.Sum16() != ref.CRC(d) {
			return bad("first hash of a process after Reset: got %#04x, CRC-16/ARC gives %#04x", h.Sum16(), ref.CRC(d))
		}
	case 7, 8:
		g := []int{2, 8}[mode-7]
		var wg sync.WaitGroup
		var goFlag, nbad int32
		for i := 0; i < g; i++ {
			wg.Add(1)
			go func(i int) {
				defer wg.Done()
				d := mk(300+i, byte(i))
				want := ref.CRC(d)
				for atomic.LoadInt32(&goFlag) == 0 {
				}
				var got uint16
				if mode == 7 && i == 1 {
					h := dyncrc16.New()
					h.Write(d)
					got = h.Sum16()
				} else {
					got = dyncrc16.Checksum(d)
				}
				if got != want {
					atomic.AddInt32(&nbad, 1)
				}
			}(i)
		}
		time.Sleep(5 * time.Millisecond)
		atomic.StoreInt32(&goFlag, 1)
		wg.Wait()
		if nbad > 0 {
			return bad("%d of %d goroutines that made the process's first calls at the same moment got a wrong sum", nbad, g)
		}
	}
	fmt.Println("OK")
	return 0
}

// c14Cold runs every cold-start mode in fresh processes (several times: the concurrent ones
// depend on timing).
func c14Cold(c *lib.Ctx) {
	self, _ := os.Executable()
	reps := int(tierN(c.Tier, 3, 20))
	for mode := range c14ColdModes {
		for r := 0; r < reps; r++ {
			if mode < 7 && r > 0 {
				break
			}
			cmd := exec.Command(self, "c14", "cold", strconv.Itoa(mode))
			cmd.Env = append(os.Environ(), "GOMAXPROCS=8")
			out, err := cmd.CombinedOutput()
			c.Eval()
			s := strings.TrimSpace(string(out))
			switch {
			case s == "OK":
				c.Count("cold_start_processes", 1)
				c.NontrivialN(1)
			case strings.HasPrefix(s, "BAD "):
				c.Violation([]byte(c14ColdModes[mode]), "fresh process (%s): %s", c14ColdModes[mode], strings.TrimPrefix(s, "BAD "))
				return
			default:
				c.Violation([]byte(c14ColdModes[mode]), "a fresh process whose first use of the package is '%s' died: %v: %s", c14ColdModes[mode], err, tail(out, 300))
				return
			}
		}
	}
}

// c14Wasm runs the js/wasm build of the monitor (cmd/c14wasm) under node, if ./run could build
// it and a node binary exists: the package compiled for a platform that is neither amd64 nor 386.
func c14Wasm(c *lib.Ctx) {
	c14Cold(c)
	wasm, js, node := os.Getenv("VERIF_WASM_PROG"), os.Getenv("VERIF_WASM_EXEC_JS"), os.Getenv("VERIF_NODE")
	if wasm == "" || js == "" || node == "" {
		c.Count("wasm_pass_not_possible_on_this_host", 1)
		return
	}
	cmd := exec.Command(node, js, wasm)
	cmd.Env = append(os.Environ(), "GOMAXPROCS=1")
	done := make(chan struct{})
	var out []byte
	var err error
	go func() { out, err = cmd.CombinedOutput(); close(done) }()
	select {
	case <-done:
	case <-time.After(10 * time.Minute):
		cmd.Process.Kill()
		c.Count("wasm_pass_timed_out", 1)
		return
	}
	s := strings.TrimSpace(string(out))
	c.Eval()
	switch {
	case strings.HasPrefix(s, "OK "):
		n, _ := strconv.Atoi(strings.TrimPrefix(s, "OK "))
		c.Count("cases_checked_in_the_js_wasm_build", int64(n))
		c.NontrivialN(int64(n))
	case strings.Contains(s, "BAD "):
		c.Violation([]byte(s), "the package built for GOOS=js GOARCH=wasm and run by node: %s", s[strings.Index(s, "BAD "):])
	default:
		// node could not run the program (missing features, out of memory ...): not a verdict
		c.Count("wasm_pass_not_possible_on_this_host", 1)
		_ = err
	}
}

// c14Transitions: idx selects the high byte of the state; all 256 low bytes x 256 inputs.
func c14Transitions(c *lib.Ctx, idx uint64) {
	bad := 0
	for lo := 0; lo < 256; lo++ {
		s := uint16(idx)<<8 | uint16(lo)
		b0, b1 := ref.CRCPreimage(s)
		for in := 0; in < 256; in++ {
			h := dyncrc16.New()
			h.Write([]byte{b0, b1})
			if h.Sum16() != s {
				if bad < 3 {
					c.Violation([]byte{b0, b1}, "register not in state %#04x after writing the reference preimage % x: Sum16=%#04x", s, []byte{b0, b1}, h.Sum16())
				}
				bad++
				break
			}
			h.Write([]byte{byte(in)})
			want := ref.CRCUpdate(s, byte(in))
			if got := h.Sum16(); got != want {
				if bad < 3 {
					c.Violation([]byte{b0, b1, byte(in)}, "transition (state %#04x, byte %#02x): got %#04x, CRC-16/ARC gives %#04x", s, in, got, want)
				}
				bad++
			}
		}
	}
	c.EvalN(65536)
	if bad == 0 {
		c.NontrivialN(65536)
	}
	if idx == 0x12 {
		c.Sample("transition", 1, map[string]interface{}{"state": "0x1234", "byte": "0x56", "next": fmt.Sprintf("%#04x", ref.CRCUpdate(0x1234, 0x56))})
	}
}

// c14Feed writes p into h through one of the standard ways of feeding a writer.
func c14Feed(h hash.Hash, p []byte, way int) (n int, how string, err error) {
	switch way {
	case 1:
		n, err = io.WriteString(h, string(p))
		if _, ok := h.(io.StringWriter); ok {
			return n, "WriteString", err
		}
		return n, "io.WriteString(Write)", err
	case 2:
		if bw, ok := h.(io.ByteWriter); ok {
			for _, b := range p {
				if err = bw.WriteByte(b); err != nil {
					return n, "WriteByte", err
				}
				n++
			}
			return n, "WriteByte", nil
		}
	case 3:
		m, e := io.Copy(h, strings.NewReader(string(p)))
		return int(m), "io.Copy(strings.Reader)", e
	case 4:
		m, e := io.Copy(h, bytes.NewReader(p))
		return int(m), "io.Copy(bytes.Reader)", e
	case 5:
		bw := bufio.NewWriterSize(h, 16)
		n, err = bw.Write(p)
		if err == nil {
			err = bw.Flush()
		}
		return n, "bufio.Writer", err
	}
	n, err = h.Write(p)
	return n, "Write", err
}

func c14Streaming(c *lib.Ctx, idx uint64) {
	rng := lib.NewRand("C14.streaming", idx)
	n := 0
	switch rng.Intn(4) {
	case 0:
		n = rng.Intn(8)
	case 1:
		n = rng.Intn(300)
	default:
		n = rng.Intn(5001)
	}
	d := rng.Bytes(n)
	c.SetInflight(d)
	want := ref.CRC(d)
	c.Eval()
	if got := dyncrc16.Checksum(d); got != want {
		c.Violation(d, "Checksum of %d bytes: got %#04x, CRC-16/ARC gives %#04x", n, got, want)
		return
	}
	var h hash.Hash = dyncrc16.New()
	h16 := h.(dyncrc16.Hash16)
	// PRNG partition.
	pos := 0
	parts := 0
	ways := map[string]int{}
	defer func() {
		for w, k := range ways {
			c.Count("parts_fed_through_"+w, int64(k))
		}
	}()
	for pos < n {
		k := 1 + rng.Intn(1+rng.Intn(200))
		if rng.Chance(1, 10) {
			k = 0 // empty write
		}
		if pos+k > n {
			k = n - pos
		}
		// every part goes in through one of the ways the standard library feeds an io.Writer:
		// Write, io.WriteString (WriteString if the hash offers it), WriteByte if it offers it,
		// io.Copy from a strings.Reader / bytes.Reader (WriteTo, ReadFrom, or plain Write), a
		// bufio.Writer on top
		m, how, err := c14Feed(h, d[pos:pos+k], rng.Intn(6))
		if err != nil || m != k {
			c.Violation(d, "%s returned (%d, %v) for %d bytes", how, m, err, k)
			return
		}
		ways[how]++
		pos += k
		parts++
	}
	if got := h16.Sum16(); got != want {
		c.Violation(d, "streaming sum over %d writes: got %#04x, single write gives %#04x", parts, got, want)
		return
	}
	// Sum(nil) appends the big-endian sum (hash.Hash convention) and does not change state.
	sum := h.Sum([]byte{0xAB})
	if len(sum) != 3 || sum[0] != 0xAB || uint16(sum[1])<<8|uint16(sum[2]) != want || h16.Sum16() != want {
		c.Violation(d, "Sum(prefix) = % x, want prefix then %#04x big endian, state unchanged", sum, want)
		return
	}
	if h.Size() != 2 || h.BlockSize() != 1 {
		c.Violation(d, "Size/BlockSize = %d/%d", h.Size(), h.BlockSize())
		return
	}
	// Residue: data followed by its sum, little endian, has checksum 0.
	h.Write([]byte{byte(want), byte(want >> 8)})
	if got := h16.Sum16(); got != 0 {
		c.Violation(d, "residue: checksum of data followed by its little-endian sum is %#04x, not 0", got)
		return
	}
	if got := dyncrc16.Checksum(append(append([]byte{}, d...), byte(want), byte(want>>8))); got != 0 {
		c.Violation(d, "residue (Checksum): %#04x, not 0", got)
		return
	}
	// Feeding through io.Copy / io.CopyN (which use ReadFrom when the hash offers it) from readers that
	// deliver short reads, (0, nil) reads and the last bytes together with io.EOF is still "feeding the data".
	for k, ch := range []lib.Chunker{{Kind: "rand", Size: 97, R: rng, Zero: true}, {Kind: "greedy", EOFWithData: true}, {Kind: "fixed", Size: 7, EOFWithData: true}} {
		hc := dyncrc16.New()
		var nn int64
		var cerr error
		if k == 1 && n > 0 {
			nn, cerr = io.CopyN(hc, lib.NewReader(d, ch), int64(n))
		} else {
			nn, cerr = io.Copy(hc, lib.NewReader(d, ch))
		}
		if cerr != nil || nn != int64(n) || hc.Sum16() != want {
			c.Violation(d, "io.Copy of %d bytes into the hash from a %s reader: copied %d, error %v, sum %#04x, CRC-16/ARC gives %#04x", n, ch, nn, cerr, hc.Sum16(), want)
			return
		}
	}
	h.Reset()
	if h16.Sum16() != 0 {
		c.Violation(d, "Reset leaves state %#04x", h16.Sum16())
		return
	}
	h.Write(d)
	if h16.Sum16() != want {
		c.Violation(d, "sum after Reset differs: %#04x vs %#04x", h16.Sum16(), want)
		return
	}
	if n > 0 {
		c.Nontrivial(d)
	}
	c.Count(fmt.Sprintf("partitions_%s", bucket(parts)), 1)
	c.Sample("string", 2, map[string]interface{}{"len": n, "writes": parts, "crc": fmt.Sprintf("%#04x", want)})
}

func bucket(n int) string {
	switch {
	case n == 0:
		return "0"
	case n == 1:
		return "1"
	case n < 10:
		return "2-9"
	case n < 100:
		return "10-99"
	default:
		return "100+"
	}
}

// c14LongWrites: idx = high byte of the register state.
func c14LongWrites(c *lib.Ctx, idx uint64) {
	rng := lib.NewRand("C14.long-writes", idx)
	bad := 0
	n := int64(0)
	for lo := 0; lo < 256; lo++ {
		s := uint16(idx)<<8 | uint16(lo)
		for _, off := range []int{0, 4, 8, 12, 16, 20, 24, 28} {
			// prefix of 32+off bytes ending in two bytes that force the register to s
			pre := rng.Bytes(32 + off)
			t := ref.CRC(pre[:len(pre)-2])
			b0, b1 := ref.CRCPreimage(s)
			pre[len(pre)-2] = b0 ^ byte(t)
			pre[len(pre)-1] = b1 ^ byte(t>>8)
			if ref.CRC(pre) != s {
				c.Violation(pre, "harness: could not force register state %#04x", s)
				return
			}
			data := append(pre, byte(s), byte(s>>8), 0, 0, 0, 0, 0, 0)
			data = append(data, rng.Bytes(24)...)
			want := ref.CRC(data)
			n++
			if got := dyncrc16.Checksum(data); got != want {
				if bad < 3 {
					c.Violation(data, "Checksum of one %d-byte block in which the register (state %#04x at offset %d) is fed its own value followed by zeros: got %#04x, CRC-16/ARC gives %#04x", len(data), s, len(pre), got, want)
				}
				bad++
				continue
			}
			h := dyncrc16.New()
			h.Write(data)
			g := dyncrc16.New()
			for i := range data {
				g.Write(data[i : i+1])
			}
			if h.Sum16() != want || g.Sum16() != want {
				if bad < 3 {
					c.Violation(data, "single Write gives %#04x, byte-wise feed %#04x, CRC-16/ARC %#04x (state %#04x fed its own value at offset %d)", h.Sum16(), g.Sum16(), want, s, len(pre))
				}
				bad++
			}
		}
	}
	c.EvalN(n)
	if bad == 0 {
		c.NontrivialN(n)
	}
	c.Count("long_writes", n)
}

// c14Lengths: long single writes at lengths where split-and-combine implementations wrap.
// zeroRunCRC returns the register after n zero bytes fed into state st: the step for a zero byte
// is linear over GF(2), so its n-th power is computed by squaring (images of the 16 unit vectors).
func zeroRunCRC(st uint16, n uint64) uint16 {
	var step [16]uint16
	for i := range step {
		step[i] = ref.CRCUpdate(1<<uint(i), 0)
	}
	apply := func(m *[16]uint16, v uint16) uint16 {
		var r uint16
		for i := 0; i < 16; i++ {
			if v&(1<<uint(i)) != 0 {
				r ^= m[i]
			}
		}
		return r
	}
	for ; n > 0; n >>= 1 {
		if n&1 != 0 {
			st = apply(&step, st)
		}
		var sq [16]uint16
		for i := range sq {
			sq[i] = apply(&step, step[i])
		}
		step = sq
	}
	return st
}

// c14HugeWrite: a single Write whose length does not fit in 32 bits. The input is an anonymous
// read-only mapping that is never written, so it costs no memory (every page is the zero page).
func c14HugeWrite(c *lib.Ctx, idx uint64) {
	if strconv.IntSize < 64 {
		c.Count("huge_write_not_possible_with_32_bit_int", 1)
		return
	}
	n64 := []uint64{1<<32 + 4099, 1 << 32, 1<<33 + 1}[idx%3]
	n := int(n64)
	m, err := syscall.Mmap(-1, 0, (n+4095)&^4095, syscall.PROT_READ, syscall.MAP_ANON|syscall.MAP_PRIVATE|syscall.MAP_NORESERVE)
	if err != nil {
		c.Count("huge_write_mapping_not_possible", 1)
		return
	}
	defer syscall.Munmap(m)
	pre := []byte{0xA5, 0x17, byte(idx) | 1}
	c.SetInflight(pre)
	if zeroRunCRC(ref.CRC(pre), 70001) != func() uint16 {
		st := ref.CRC(pre)
		for i := 0; i < 70001; i++ {
			st = ref.CRCUpdate(st, 0)
		}
		return st
	}() {
		c.Violation(pre, "harness: the zero-run reference disagrees with the bit-serial reference")
		return
	}
	want := zeroRunCRC(ref.CRC(pre), n64)
	h := dyncrc16.New()
	h.Write(pre)
	c.Tick()
	wn, werr := h.Write(m[:n])
	c.Eval()
	c.Tick()
	if werr != nil || wn != n {
		c.Violation(pre, "one Write of %d bytes returned (%d, %v)", n, wn, werr)
		return
	}
	if got := h.Sum16(); got != want {
		c.Violation(pre, "one Write of %d zero bytes (2^32 + %d) after a 3-byte write: got %#04x, CRC-16/ARC gives %#04x", n, n64-1<<32, got, want)
		return
	}
	if c.Tier != "thorough" {
		c.Count("single_writes_of_4_GiB_or_more", 1)
		c.Nontrivial([]byte("huge"), []byte(fmt.Sprint(n64)))
		return
	}
	// (thorough tier) the same bytes in two parts, cut at a place that is no multiple of anything
	g := dyncrc16.New()
	g.Write(pre)
	k := n/2 + 12345
	g.Write(m[:k])
	c.Tick()
	g.Write(m[k:n])
	c.Eval()
	c.Tick()
	if g.Sum16() != want {
		c.Violation(pre, "%d zero bytes written as %d + %d: got %#04x, CRC-16/ARC gives %#04x", n, k, n-k, g.Sum16(), want)
		return
	}
	c.Count("single_writes_of_4_GiB_or_more", 1)
	c.Nontrivial([]byte("huge"), []byte(fmt.Sprint(n64)))
}

// c14Shared: see the rule text. The sum of a byte sequence does not depend on where the bytes
// live or on who else reads them.
func c14Shared(c *lib.Ctx, idx uint64) {
	rng := lib.NewRand("C14.shared", idx)
	n := 65536 + rng.Intn(1<<20-65536)
	if idx%4 == 3 {
		n = 64 + rng.Intn(237)
	}
	body := rng.Bytes(n)
	orig := append([]byte{}, body...)
	c.SetInflight(body[:minInt(n, 64)])
	crcFrom := func(st uint16, d []byte) uint16 {
		for _, b := range d {
			st = ref.CRCUpdate(st, b)
		}
		return st
	}
	// 1. the input in read-only memory
	if m, err := syscall.Mmap(-1, 0, (n+4095)&^4095, syscall.PROT_READ|syscall.PROT_WRITE, syscall.MAP_ANON|syscall.MAP_PRIVATE); err == nil {
		copy(m, body)
		if syscall.Mprotect(m, syscall.PROT_READ) == nil {
			ro := m[:n]
			for k := 0; k < 3; k++ {
				pre := rng.Bytes(1 + rng.Intn(3))
				pre[0] |= 1
				var got uint16
				split := rng.Intn(n)
				o := lib.Guard(func() {
					old := debug.SetPanicOnFault(true)
					defer debug.SetPanicOnFault(old)
					h := dyncrc16.New()
					h.Write(pre)
					if k == 2 {
						h.Write(ro[:split])
						h.Write(ro[split:])
					} else {
						h.Write(ro)
					}
					got = h.Sum16()
				})
				c.Eval()
				if o.Panicked {
					c.Violation(orig[:minInt(n, 4096)], "Write of %d bytes that lie in read-only memory, on a hash in a non-zero state, faulted: %s (a Write must not store into its input, even temporarily)", n, o.Panic)
					syscall.Munmap(m)
					return
				}
				if want := crcFrom(ref.CRC(pre), orig); got != want {
					c.Violation(orig[:minInt(n, 4096)], "Write of %d bytes from read-only memory after a %d-byte write: got %#04x, CRC-16/ARC gives %#04x", n, len(pre), got, want)
					syscall.Munmap(m)
					return
				}
				c.Count("writes_from_read_only_memory", 1)
			}
		}
		syscall.Munmap(m)
	} else {
		c.Count("read_only_mapping_not_possible", 1)
	}
	// 2. one shared slice, eight hashes in eight goroutines
	const G = 8
	rounds := 6
	pres := make([][]byte, G)
	wants := make([]uint16, G)
	for g := range pres {
		pres[g] = rng.Bytes(1 + rng.Intn(4))
		pres[g][0] |= 1
		wants[g] = crcFrom(ref.CRC(pres[g]), orig)
	}
	var wg sync.WaitGroup
	var bad int32
	var first atomic.Value
	var goFlag int32
	for g := 0; g < G; g++ {
		wg.Add(1)
		go func(g int) {
			defer wg.Done()
			for atomic.LoadInt32(&goFlag) == 0 {
				runtime.Gosched()
			}
			for r := 0; r < rounds; r++ {
				h := dyncrc16.New()
				h.Write(pres[g])
				if (g+r)%3 == 2 {
					k := (g*7919 + r*104729) % n
					h.Write(body[:k])
					h.Write(body[k:])
				} else {
					h.Write(body)
				}
				if got := h.Sum16(); got != wants[g] {
					if atomic.AddInt32(&bad, 1) == 1 {
						first.Store(fmt.Sprintf("goroutine %d round %d: got %#04x, CRC-16/ARC of its prefix and the shared bytes is %#04x", g, r, got, wants[g]))
					}
				}
			}
		}(g)
	}
	atomic.StoreInt32(&goFlag, 1)
	wg.Wait()
	c.EvalN(int64(G * rounds))
	if bad > 0 {
		c.Violation(orig[:minInt(n, 4096)], "%d of %d sums wrong when %d goroutines, each with a hash of its own, wrote one shared slice of %d bytes at the same time; %s", bad, G*rounds, G, n, first.Load())
		return
	}
	if !bytes.Equal(body, orig) {
		c.Violation(orig[:minInt(n, 4096)], "the shared input of %d bytes was changed by Write calls that only read it", n)
		return
	}
	c.Count("concurrent_writes_of_one_shared_slice", int64(G*rounds))
	c.Nontrivial([]byte("shared"), []byte(fmt.Sprint(n, idx)))
}

func c14Lengths(c *lib.Ctx, idx uint64) {
	rng := lib.NewRand("C14.lengths", idx)
	var n int
	if idx%13 == 12 {
		n = 30000 + rng.Intn(900000)
	} else {
		parts := []int{1, 2, 3, 4, 8}[idx%5]
		mult := 1 + int(idx/5)%4
		base := []int{32767, 65535, 32768, 65536}[int(idx/20)%4]
		n = base*mult*parts + []int{0, -1, 1, -2, 2, 3, -3}[int(idx/80)%7]
		for n > 2300000 {
			n -= base
		}
	}
	if idx%29 == 7 {
		// single writes of many megabytes: at and around 4, 8, 16 and 32 MiB and in between
		big := []int{4<<20 + 3, 4 << 20, 4<<20 + 1, 5<<20 + 3, 8<<20 + 1, 8<<20 - 1, 12<<20 - 7, 16<<20 + 5, 33<<20 + 7, 6<<20 + 4099}
		n = big[int(idx/29)%len(big)]
	}
	d := rng.Bytes(n)
	c.SetInflight(d[:minInt(n, 64)])
	// a PRNG starting state through a short first write
	pre := rng.Bytes(rng.Intn(3))
	if idx%2 == 0 && len(pre) == 0 {
		pre = []byte{rng.Byte() | 1}
	}
	want := ref.CRC(append(append([]byte{}, pre...), d...))
	h := dyncrc16.New()
	h.Write(pre)
	h.Write(d)
	c.Eval()
	if got := h.Sum16(); got != want {
		c.Violation(d[:minInt(n, 4096)], "one Write of %d bytes (after a %d-byte write): got %#04x, CRC-16/ARC gives %#04x", n, len(pre), got, want)
		return
	}
	if len(pre) == 0 {
		if got := dyncrc16.Checksum(d); got != want {
			c.Violation(d[:minInt(n, 4096)], "Checksum of %d bytes: got %#04x, CRC-16/ARC gives %#04x", n, got, want)
			return
		}
	}
	// the same bytes in two writes split at a PRNG point
	k := rng.Intn(n)
	g := dyncrc16.New()
	g.Write(pre)
	g.Write(d[:k])
	g.Write(d[k:])
	if g.Sum16() != want {
		c.Violation(d[:minInt(n, 4096)], "%d bytes written as %d + %d: got %#04x, CRC-16/ARC gives %#04x", n, k, n-k, g.Sum16(), want)
		return
	}
	c.Count("long_lengths", 1)
	c.Nontrivial([]byte(fmt.Sprint(n)), d[:minInt(n, 256)])
}
