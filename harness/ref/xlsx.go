package ref

import (
	"archive/zip"
	"bytes"
	"encoding/xml"
	"fmt"
	"io"
	"path"
	"strconv"
	"strings"
)

// Workbook is a minimal, independent reading of an .xlsx file: sheet name ->
// rows -> cells (by zero-based column index). It uses only archive/zip and
// encoding/xml, not the spreadsheet library the generator uses.
type Workbook struct {
	SheetNames []string
	Sheets     map[string][]XRow
	SheetFile  map[string]string // sheet name -> path inside the archive
}

// XRow is one spreadsheet row.
type XRow struct {
	Num   int // 1-based row number
	Cells map[int]string
}

// Cell returns the text of column col (0 = A) or "".
func (r XRow) Cell(col int) string { return r.Cells[col] }

func colIndex(ref string) int {
	n := 0
	for _, ch := range ref {
		if ch < 'A' || ch > 'Z' {
			break
		}
		n = n*26 + int(ch-'A') + 1
	}
	return n - 1
}

func readZipFile(zr *zip.Reader, name string) ([]byte, error) {
	for _, f := range zr.File {
		if f.Name == name {
			rc, err := f.Open()
			if err != nil {
				return nil, err
			}
			defer rc.Close()
			return io.ReadAll(rc)
		}
	}
	return nil, fmt.Errorf("xlsx: no %s in archive", name)
}

// ReadXLSX parses workbook bytes.
func ReadXLSX(data []byte) (*Workbook, error) {
	zr, err := zip.NewReader(bytes.NewReader(data), int64(len(data)))
	if err != nil {
		return nil, err
	}
	// Shared strings.
	var shared []string
	if b, err := readZipFile(zr, "xl/sharedStrings.xml"); err == nil {
		var sst struct {
			SI []struct {
				T []string `xml:"t"`
				R []struct {
					T string `xml:"t"`
				} `xml:"r"`
			} `xml:"si"`
		}
		if err := xml.Unmarshal(b, &sst); err != nil {
			return nil, err
		}
		for _, si := range sst.SI {
			s := strings.Join(si.T, "")
			for _, r := range si.R {
				s += r.T
			}
			shared = append(shared, s)
		}
	}
	b, err := readZipFile(zr, "xl/workbook.xml")
	if err != nil {
		return nil, err
	}
	var wbx struct {
		Sheets []struct {
			Name string `xml:"name,attr"`
			RID  string `xml:"http://schemas.openxmlformats.org/officeDocument/2006/relationships id,attr"`
		} `xml:"sheets>sheet"`
	}
	if err := xml.Unmarshal(b, &wbx); err != nil {
		return nil, err
	}
	b, err = readZipFile(zr, "xl/_rels/workbook.xml.rels")
	if err != nil {
		return nil, err
	}
	var rels struct {
		R []struct {
			ID     string `xml:"Id,attr"`
			Target string `xml:"Target,attr"`
		} `xml:"Relationship"`
	}
	if err := xml.Unmarshal(b, &rels); err != nil {
		return nil, err
	}
	target := map[string]string{}
	for _, r := range rels.R {
		t := r.Target
		if !strings.HasPrefix(t, "/") {
			t = path.Join("xl", t)
		} else {
			t = strings.TrimPrefix(t, "/")
		}
		target[r.ID] = t
	}
	wb := &Workbook{Sheets: map[string][]XRow{}, SheetFile: map[string]string{}}
	for _, sh := range wbx.Sheets {
		file := target[sh.RID]
		b, err := readZipFile(zr, file)
		if err != nil {
			return nil, err
		}
		var sx struct {
			Rows []struct {
				R int `xml:"r,attr"`
				C []struct {
					R  string `xml:"r,attr"`
					T  string `xml:"t,attr"`
					V  string `xml:"v"`
					IS struct {
						T string `xml:"t"`
					} `xml:"is"`
				} `xml:"c"`
			} `xml:"sheetData>row"`
		}
		if err := xml.Unmarshal(b, &sx); err != nil {
			return nil, err
		}
		var rows []XRow
		for _, r := range sx.Rows {
			xr := XRow{Num: r.R, Cells: map[int]string{}}
			for _, c := range r.C {
				v := c.V
				switch c.T {
				case "s":
					if strings.TrimSpace(c.V) == "" {
						continue
					}
					i, err := strconv.Atoi(strings.TrimSpace(c.V))
					if err != nil || i < 0 || i >= len(shared) {
						return nil, fmt.Errorf("xlsx: bad shared string index %q", c.V)
					}
					v = shared[i]
				case "inlineStr":
					v = c.IS.T
				}
				if v != "" {
					xr.Cells[colIndex(c.R)] = v
				}
			}
			rows = append(rows, xr)
		}
		wb.SheetNames = append(wb.SheetNames, sh.Name)
		wb.Sheets[sh.Name] = rows
		wb.SheetFile[sh.Name] = file
	}
	return wb, nil
}

// ProfRow is one field (or sub-field) row of the Messages sheet.
type ProfRow struct {
	RowNum     int
	Mesg       string
	IsSubfield bool
	Num        int    // field def # (main fields only)
	Name       string // snake_case
	Type       string
	Array      string // "", "[N]", "[3]" ...
	Components []string
	RefFields  []string
	Scale      string
	Enabled    bool // EXAMPLE column neither empty nor "0"
	Example    string
	ParentRow  int // sub-fields: row number of the main field they belong to
}

// ProfType is one type of the Types sheet.
type ProfType struct {
	Name   string
	Base   string
	Values []struct {
		Name  string
		Value string
	}
}

func splitList(s string) []string {
	var out []string
	for _, p := range strings.Split(s, ",") {
		p = strings.TrimSpace(p)
		if p != "" {
			out = append(out, p)
		}
	}
	return out
}

// ProfileRows reads the Messages sheet into field rows. Column layout (FIT
// SDK Profile.xlsx): A message name, B field def #, C field name, D field
// type, E array, F components, L ref field name, M ref field value, P the
// product column "EXAMPLE".
func (wb *Workbook) ProfileRows() ([]ProfRow, error) {
	rows, ok := wb.Sheets["Messages"]
	if !ok {
		return nil, fmt.Errorf("xlsx: no Messages sheet")
	}
	var out []ProfRow
	cur := ""
	lastMain := 0
	for _, r := range rows {
		if r.Num == 1 {
			continue
		}
		if a := strings.TrimSpace(r.Cell(0)); a != "" {
			cur = a
			continue
		}
		name := strings.TrimSpace(r.Cell(2))
		if name == "" || cur == "" {
			continue
		}
		pr := ProfRow{RowNum: r.Num, Mesg: cur, Name: name, Type: strings.TrimSpace(r.Cell(3)), Array: strings.TrimSpace(r.Cell(4))}
		pr.Components = splitList(r.Cell(5))
		pr.Scale = strings.TrimSpace(r.Cell(6))
		pr.RefFields = splitList(r.Cell(11))
		ex := strings.TrimSpace(r.Cell(15))
		// The generator treats an empty or "0" product cell as disabled; any
		// other value enables the row (and, for strings and [N] arrays, is the length).
		pr.Enabled = ex != "" && ex != "0"
		pr.Example = ex
		if b := strings.TrimSpace(r.Cell(1)); b != "" {
			n, err := strconv.Atoi(b)
			if err != nil {
				return nil, fmt.Errorf("xlsx: row %d: bad field number %q", r.Num, b)
			}
			pr.Num = n
			lastMain = r.Num
		} else {
			pr.IsSubfield = true
			pr.ParentRow = lastMain
		}
		out = append(out, pr)
	}
	return out, nil
}

// ProfileTypes reads the Types sheet.
func (wb *Workbook) ProfileTypes() ([]ProfType, error) {
	rows, ok := wb.Sheets["Types"]
	if !ok {
		return nil, fmt.Errorf("xlsx: no Types sheet")
	}
	var out []ProfType
	for _, r := range rows {
		if r.Num == 1 {
			continue
		}
		if a := strings.TrimSpace(r.Cell(0)); a != "" {
			out = append(out, ProfType{Name: a, Base: strings.TrimSpace(r.Cell(1))})
			continue
		}
		if len(out) == 0 {
			continue
		}
		vn := strings.TrimSpace(r.Cell(2))
		if vn == "" {
			continue
		}
		t := &out[len(out)-1]
		t.Values = append(t.Values, struct {
			Name  string
			Value string
		}{vn, strings.TrimSpace(r.Cell(3))})
	}
	return out, nil
}

// CamelCase converts a snake_case profile name to the exported Go name the
// generator's naming convention gives it.
func CamelCase(s string) string {
	var b strings.Builder
	up := true
	for _, ch := range s {
		if ch == '_' {
			up = true
			continue
		}
		if up && ch >= 'a' && ch <= 'z' {
			ch -= 'a' - 'A'
		}
		up = false
		b.WriteRune(ch)
	}
	return b.String()
}
