package ref

import "sync"

// CRCUpdate feeds one byte into a CRC-16/ARC register, bit by bit: reflected
// polynomial 0xA001, no final XOR. Deliberately table-free.
func CRCUpdate(crc uint16, b byte) uint16 {
	crc ^= uint16(b)
	for i := 0; i < 8; i++ {
		if crc&1 != 0 {
			crc = crc>>1 ^ 0xA001
		} else {
			crc >>= 1
		}
	}
	return crc
}

// CRC returns the CRC-16/ARC (initial value 0) of data.
func CRC(data []byte) uint16 {
	var c uint16
	for _, b := range data {
		c = CRCUpdate(c, b)
	}
	return c
}

// CRCPreimage returns two bytes which, fed into a zero register, leave it in
// state s. (The two-byte map from a zero register is a bijection on 16 bits:
// CRC of the two bytes lo,hi of x from state 0 is a linear invertible map.)
var crcPre [65536]uint16
var crcPreOnce sync.Once

func CRCPreimage(s uint16) (byte, byte) {
	crcPreOnce.Do(func() {
		for x := 0; x < 65536; x++ {
			c := CRCUpdate(CRCUpdate(0, byte(x)), byte(x>>8))
			crcPre[c] = uint16(x)
		}
	})
	x := crcPre[s]
	return byte(x), byte(x >> 8)
}
