// Package ref is the trusted base of the verification harness: an independent
// description of the FIT protocol written from the FIT SDK documentation. It
// does not import the code under test.
package ref

// BaseType describes one of the 17 FIT base types.
type BaseType struct {
	Code    byte   // base type byte as it appears in a definition message
	Name    string // SDK name
	Size    int    // bytes per element
	Signed  bool   // two's complement integer or IEEE float
	Integer bool   // integer-like (sint*/uint*/uint*z)
	Float   bool
	Invalid uint64 // bit pattern of the invalid value (Size bytes, little end first)
}

// BaseTypes lists the 17 FIT base types (FIT protocol, table "base types").
var BaseTypes = []BaseType{
	{0x00, "enum", 1, false, false, false, 0xFF},
	{0x01, "sint8", 1, true, true, false, 0x7F},
	{0x02, "uint8", 1, false, true, false, 0xFF},
	{0x83, "sint16", 2, true, true, false, 0x7FFF},
	{0x84, "uint16", 2, false, true, false, 0xFFFF},
	{0x85, "sint32", 4, true, true, false, 0x7FFFFFFF},
	{0x86, "uint32", 4, false, true, false, 0xFFFFFFFF},
	{0x07, "string", 1, false, false, false, 0x00},
	{0x88, "float32", 4, true, false, true, 0xFFFFFFFF},
	{0x89, "float64", 8, true, false, true, 0xFFFFFFFFFFFFFFFF},
	{0x0A, "uint8z", 1, false, true, false, 0x00},
	{0x8B, "uint16z", 2, false, true, false, 0x0000},
	{0x8C, "uint32z", 4, false, true, false, 0x00000000},
	{0x0D, "byte", 1, false, false, false, 0xFF},
	{0x8E, "sint64", 8, true, true, false, 0x7FFFFFFFFFFFFFFF},
	{0x8F, "uint64", 8, false, true, false, 0xFFFFFFFFFFFFFFFF},
	{0x90, "uint64z", 8, false, true, false, 0x0000000000000000},
}

// Base type indices (low five bits of the code).
const (
	BEnum    = 0
	BSint8   = 1
	BUint8   = 2
	BSint16  = 3
	BUint16  = 4
	BSint32  = 5
	BUint32  = 6
	BString  = 7
	BFloat32 = 8
	BFloat64 = 9
	BUint8z  = 10
	BUint16z = 11
	BUint32z = 12
	BByte    = 13
	BSint64  = 14
	BUint64  = 15
	BUint64z = 16
)

// BaseByCode returns the base type whose code is c.
func BaseByCode(c byte) (BaseType, bool) {
	idx := int(c & 0x1F)
	if idx >= len(BaseTypes) {
		return BaseType{}, false
	}
	if BaseTypes[idx].Code != c {
		return BaseType{}, false
	}
	return BaseTypes[idx], true
}

// BaseByIndex returns the base type with the given 5-bit index.
func BaseByIndex(i int) (BaseType, bool) {
	if i < 0 || i >= len(BaseTypes) {
		return BaseType{}, false
	}
	return BaseTypes[i], true
}

// Get reads an unsigned integer of n bytes from b in the given byte order
// (arch 0 = little endian, 1 = big endian).
func Get(b []byte, n int, arch byte) uint64 {
	var v uint64
	if arch == 0 {
		for i := n - 1; i >= 0; i-- {
			v = v<<8 | uint64(b[i])
		}
	} else {
		for i := 0; i < n; i++ {
			v = v<<8 | uint64(b[i])
		}
	}
	return v
}

// Put writes the low n bytes of v into b in the given byte order.
func Put(b []byte, v uint64, n int, arch byte) {
	for i := 0; i < n; i++ {
		by := byte(v >> (8 * uint(i)))
		if arch == 0 {
			b[i] = by
		} else {
			b[n-1-i] = by
		}
	}
}

// SignExtend interprets the low n bytes of v as a two's complement number.
func SignExtend(v uint64, n int) int64 {
	shift := uint(64 - 8*n)
	return int64(v<<shift) >> shift
}
