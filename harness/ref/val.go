package ref

import (
	"fmt"
	"strings"
)

// Val is the canonical form of one message field value, as a user of the
// library can observe it.
type Val struct {
	K   byte   // 'u' unsigned, 'i' signed, 'f' float32 bits, 'd' float64 bits, 's' string, 't' time, 'l' latitude, 'g' longitude, 'a' array
	N   uint64 // u: value; i: uint64(int64 value); f/d: IEEE bits; t: unix seconds; l/g: uint64(int64 semicircles)
	Ns  int32  // t: nanoseconds
	Off int64  // t: zone offset east of UTC in seconds
	S   string // s: value; t: zone name
	Nil bool   // a: nil slice
	Inv bool   // l/g: Invalid() reported true
	A   []Val
}

func U(v uint64) Val   { return Val{K: 'u', N: v} }
func I(v int64) Val    { return Val{K: 'i', N: uint64(v)} }
func Str(s string) Val { return Val{K: 's', S: s} }

// Equal reports deep equality.
func (v Val) Equal(w Val) bool {
	if v.K != w.K || v.N != w.N || v.Ns != w.Ns || v.Off != w.Off || v.S != w.S || v.Nil != w.Nil || v.Inv != w.Inv || len(v.A) != len(w.A) {
		return false
	}
	for i := range v.A {
		if !v.A[i].Equal(w.A[i]) {
			return false
		}
	}
	return true
}

func (v Val) String() string {
	switch v.K {
	case 'u':
		return fmt.Sprintf("u:%d", v.N)
	case 'i':
		return fmt.Sprintf("i:%d", int64(v.N))
	case 'f':
		return fmt.Sprintf("f32:%#x", v.N)
	case 'd':
		return fmt.Sprintf("f64:%#x", v.N)
	case 's':
		return fmt.Sprintf("s:%q", v.S)
	case 't':
		return fmt.Sprintf("t:%d.%09d%+d(%s)", int64(v.N), v.Ns, v.Off, v.S)
	case 'l':
		return fmt.Sprintf("lat:%d(inv=%v)", int64(v.N), v.Inv)
	case 'g':
		return fmt.Sprintf("lng:%d(inv=%v)", int64(v.N), v.Inv)
	case 'a':
		if v.Nil {
			return "[nil]"
		}
		parts := make([]string, len(v.A))
		for i := range v.A {
			parts[i] = v.A[i].String()
		}
		return "[" + strings.Join(parts, " ") + "]"
	}
	return fmt.Sprintf("?%c", v.K)
}

// Msg is a message in canonical form: one Val per struct field.
type Msg struct {
	Global uint16
	F      []Val
	// Seq is the index of the data record that produced it (model side only).
	Seq int
}

// FIT epoch: 1989-12-31T00:00:00Z as unix seconds.
const FitEpochUnix = 631065600

// TimeVal returns the canonical UTC time for a FIT second count.
func TimeVal(sec uint32) Val {
	return Val{K: 't', N: uint64(int64(FitEpochUnix) + int64(sec)), S: "UTC"}
}
