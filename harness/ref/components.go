package ref

// Component expansion rules for the five messages named by the properties,
// written from the FIT SDK profile (Components / Bits / Accumulate columns):
//
//	record (20):  altitude(2) -> enhanced_altitude(78) [16]
//	              speed(6) -> enhanced_speed(73) [16]
//	              compressed_speed_distance(8, byte[3]) -> speed(6) [12], distance(5) [12, accumulated]
//	              cycles(18) -> total_cycles(19) [8, accumulated]
//	              compressed_accumulated_power(28) -> accumulated_power(29) [16, accumulated]
//	lap (19):     avg_speed(13)->110, max_speed(14)->111, avg_altitude(42)->112, max_altitude(43)->114, min_altitude(62)->113
//	session (18): avg_speed(14)->124, max_speed(15)->125, avg_altitude(49)->126, max_altitude(50)->128, min_altitude(71)->127
//	segment_lap (142): avg_altitude(34)->91, max_altitude(35)->92, min_altitude(54)->93
//	event (21):   data16(2) -> data(3) [16];
//	              data(3) -> score(7) [16], opponent_score(8) [16]            when event(0) == sport_point(33)
//	              data(3) -> rear_gear_num(11) rear_gear(12) front_gear_num(9) front_gear(10) [8 each]
//	                                                                          when event(0) in {front_gear_change(42), rear_gear_change(43)}
//
// A source holding its invalid value leaves the destinations untouched.
// Accumulated destinations are the running sum of rollover-corrected deltas
// since the start of the file.

const (
	MesgSession    = 18
	MesgLap        = 19
	MesgRecord     = 20
	MesgEvent      = 21
	MesgSegmentLap = 142
)

// Accum is a rollover-correcting accumulator of the given bit width.
type Accum struct {
	Acc, Last uint32
}

func (a *Accum) Add(v uint32, bits uint) uint32 {
	mask := uint32(1)<<bits - 1
	a.Acc += (v - a.Last) & mask
	a.Last = v
	return a.Acc
}

// CompState is the per-file accumulation state.
type CompState struct {
	Dist, Cycles, Power Accum
}

type simple struct{ src, dst byte }

var simpleComps = map[uint16][]simple{
	MesgRecord:     {{2, 78}, {6, 73}},
	MesgLap:        {{13, 110}, {14, 111}, {42, 112}, {43, 114}, {62, 113}},
	MesgSession:    {{14, 124}, {15, 125}, {49, 126}, {50, 128}, {71, 127}},
	MesgSegmentLap: {{34, 91}, {35, 92}, {54, 93}},
}

// CompInfo reports what an expansion did, for coverage counters and for the
// known-finding matcher.
type CompInfo struct {
	Expanded   []byte // destination field numbers written
	CSD        bool   // compressed_speed_distance expanded
	CSDRaw     [3]byte
	Cycles     bool
	CyclesRaw  uint32
	Power      bool
	PowerRaw   uint32
	AmbigSpeed bool // enhanced_speed not compared: speed is both destination and source
}

// IsComponentMesg reports whether message g has component rules here.
func IsComponentMesg(g uint16) bool {
	return g == MesgRecord || g == MesgLap || g == MesgSession || g == MesgSegmentLap || g == MesgEvent
}

func (p *Profile) get(m *Msg, num byte) (Val, bool) {
	pf := p.Field(m.Global, num)
	if pf == nil || pf.Sindex >= len(m.F) {
		return Val{}, false
	}
	return m.F[pf.Sindex], true
}

func (p *Profile) set(m *Msg, num byte, v Val) bool {
	pf := p.Field(m.Global, num)
	if pf == nil || pf.Sindex >= len(m.F) {
		return false
	}
	m.F[pf.Sindex] = v
	return true
}

// Expand applies the component rules to m in place.
func (p *Profile) Expand(m *Msg, st *CompState) CompInfo {
	var ci CompInfo
	for _, s := range simpleComps[m.Global] {
		src, ok := p.get(m, s.src)
		if !ok || src.K != 'u' || src.N == 0xFFFF {
			continue
		}
		if p.set(m, s.dst, U(src.N&0xFFFF)) {
			ci.Expanded = append(ci.Expanded, s.dst)
		}
	}
	switch m.Global {
	case MesgRecord:
		if csd, ok := p.get(m, 8); ok && csd.K == 'a' && len(csd.A) == 3 {
			b0, b1, b2 := uint32(csd.A[0].N), uint32(csd.A[1].N), uint32(csd.A[2].N)
			if !(b0 == 0xFF && b1 == 0xFF && b2 == 0xFF) {
				ci.CSD = true
				ci.CSDRaw = [3]byte{byte(b0), byte(b1), byte(b2)}
				if p.set(m, 6, U(uint64(b0|(b1&0x0F)<<8))) {
					ci.Expanded = append(ci.Expanded, 6)
				}
				d := b1>>4 | b2<<4
				if p.set(m, 5, U(uint64(st.Dist.Add(d, 12)))) {
					ci.Expanded = append(ci.Expanded, 5)
				}
				ci.AmbigSpeed = true
			}
		}
		if c, ok := p.get(m, 18); ok && c.K == 'u' && c.N != 0xFF {
			ci.Cycles = true
			ci.CyclesRaw = uint32(c.N)
			if p.set(m, 19, U(uint64(st.Cycles.Add(uint32(c.N), 8)))) {
				ci.Expanded = append(ci.Expanded, 19)
			}
		}
		if c, ok := p.get(m, 28); ok && c.K == 'u' && c.N != 0xFFFF {
			ci.Power = true
			ci.PowerRaw = uint32(c.N)
			if p.set(m, 29, U(uint64(st.Power.Add(uint32(c.N), 16)))) {
				ci.Expanded = append(ci.Expanded, 29)
			}
		}
	case MesgEvent:
		if d16, ok := p.get(m, 2); ok && d16.K == 'u' && d16.N != 0xFFFF {
			if p.set(m, 3, U(d16.N&0xFFFF)) {
				ci.Expanded = append(ci.Expanded, 3)
			}
		}
		data, ok := p.get(m, 3)
		ev, ok2 := p.get(m, 0)
		if ok && ok2 && data.K == 'u' && data.N != 0xFFFFFFFF {
			switch ev.N {
			case 33:
				p.set(m, 7, U(data.N&0xFFFF))
				p.set(m, 8, U(data.N>>16&0xFFFF))
				ci.Expanded = append(ci.Expanded, 7, 8)
			case 42, 43:
				p.set(m, 11, U(data.N&0xFF))
				p.set(m, 12, U(data.N>>8&0xFF))
				p.set(m, 9, U(data.N>>16&0xFF))
				p.set(m, 10, U(data.N>>24&0xFF))
				ci.Expanded = append(ci.Expanded, 11, 12, 9, 10)
			}
		}
	}
	return ci
}

// CompSources returns the field numbers that are component sources of message g.
func CompSources(g uint16) []byte {
	var out []byte
	for _, s := range simpleComps[g] {
		out = append(out, s.src)
	}
	switch g {
	case MesgRecord:
		out = append(out, 8, 18, 28)
	case MesgEvent:
		out = append(out, 2, 3)
	}
	return out
}

// CompDests returns the field numbers that are component destinations of message g.
func CompDests(g uint16) []byte {
	var out []byte
	for _, s := range simpleComps[g] {
		out = append(out, s.dst)
	}
	switch g {
	case MesgRecord:
		out = append(out, 6, 5, 19, 29)
	case MesgEvent:
		out = append(out, 3, 7, 8, 9, 10, 11, 12)
	}
	return out
}
