package ref

// FieldDef is one field definition of a definition message.
type FieldDef struct {
	Num  byte
	Size byte
	Base byte // base type byte as written on the wire
}

// DevDef is one developer field description of a definition message.
type DevDef struct {
	Num  byte
	Size byte
	Idx  byte
}

// Record is a definition record or a data record.
type Record struct {
	IsDef bool
	Local byte // local message type: 0..15 (0..3 for compressed headers)
	// HdrBits: reserved bits of a normal record header that are set on the wire (0x10 for
	// definitions, 0x10 and 0x20 for data records): readers ignore them.
	HdrBits byte

	// Definition records.
	Arch     byte // 0 little endian, 1 big endian
	Reserved byte
	Global   uint16
	Fields   []FieldDef
	HasDev   bool
	Dev      []DevDef

	// Data records.
	Compressed bool
	TimeOffset byte     // 5 bits, compressed headers only
	Data       [][]byte // one slice per field of the governing definition, then one per dev field
}

// Plan describes a whole FIT file at the level of the protocol grammar.
type Plan struct {
	HeaderSize    byte   // 12 or 14
	Proto         byte   // protocol version byte
	ProfVer       uint16 // profile version
	HeaderCRCZero bool   // 14-byte header with CRC field left 0
	Records       []Record
}

// HeaderBytes returns the header for a data area of n bytes.
func (p *Plan) HeaderBytes(n int) []byte {
	hs := p.HeaderSize
	if hs == 0 {
		hs = 14
	}
	h := make([]byte, hs)
	h[0] = hs
	h[1] = p.Proto
	h[2] = byte(p.ProfVer)
	h[3] = byte(p.ProfVer >> 8)
	h[4] = byte(n)
	h[5] = byte(n >> 8)
	h[6] = byte(n >> 16)
	h[7] = byte(n >> 24)
	copy(h[8:12], ".FIT")
	if hs == 14 && !p.HeaderCRCZero {
		c := CRC(h[:12])
		h[12] = byte(c)
		h[13] = byte(c >> 8)
	}
	return h
}

// RecordBytes serialises one record.
func RecordBytes(r *Record) []byte {
	var out []byte
	if r.IsDef {
		hdr := byte(0x40) | r.Local&0x0F | r.HdrBits&0x10
		if r.HasDev {
			hdr |= 0x20
		}
		out = append(out, hdr, r.Reserved, r.Arch)
		var g [2]byte
		Put(g[:], uint64(r.Global), 2, r.Arch)
		out = append(out, g[0], g[1], byte(len(r.Fields)))
		for _, f := range r.Fields {
			out = append(out, f.Num, f.Size, f.Base)
		}
		if r.HasDev {
			out = append(out, byte(len(r.Dev)))
			for _, d := range r.Dev {
				out = append(out, d.Num, d.Size, d.Idx)
			}
		}
		return out
	}
	if r.Compressed {
		out = append(out, 0x80|(r.Local&3)<<5|r.TimeOffset&0x1F)
	} else {
		out = append(out, r.Local&0x0F|r.HdrBits&0x30)
	}
	for _, d := range r.Data {
		out = append(out, d...)
	}
	return out
}

// DataBytes returns the record area of the plan.
func (p *Plan) DataBytes() []byte {
	var out []byte
	for i := range p.Records {
		out = append(out, RecordBytes(&p.Records[i])...)
	}
	return out
}

// Bytes serialises the plan into a complete FIT file with correct CRCs.
func (p *Plan) Bytes() []byte {
	data := p.DataBytes()
	out := append(p.HeaderBytes(len(data)), data...)
	c := CRC(out)
	return append(out, byte(c), byte(c>>8))
}

// RecordOffsets returns, for each record, the offset in Bytes() of its first
// byte, plus a final entry for the offset of the file CRC.
func (p *Plan) RecordOffsets() []int {
	hs := int(p.HeaderSize)
	if hs == 0 {
		hs = 14
	}
	offs := make([]int, 0, len(p.Records)+1)
	o := hs
	for i := range p.Records {
		offs = append(offs, o)
		o += len(RecordBytes(&p.Records[i]))
	}
	return append(offs, o)
}
