package ref

import (
	"errors"
	"fmt"
)

// ErrUndefinedLocal is returned by Feed for a data record whose local message
// type has no definition.
var ErrUndefinedLocal = errors.New("ref: data record for undefined local message type")

// Interp is the reference interpretation of a record stream: what a decoder
// must produce according to the FIT protocol and the properties' statements.
type Interp struct {
	P    *Profile
	Defs [16]*Record

	HasRef bool
	Ref    uint32

	// NoComponents disables component expansion (the caller compares
	// destinations separately or not at all).
	Msgs []Msg

	UnknownMsgs   map[uint16]int
	UnknownFields map[uint32]int

	Comp CompState

	nrec int
}

// NewInterp returns an interpreter at the start of a file.
func NewInterp(p *Profile) *Interp {
	return &Interp{P: p, UnknownMsgs: map[uint16]int{}, UnknownFields: map[uint32]int{}}
}

// Feed interprets one record. For a data record of a known message it
// returns the expected message (also appended to Msgs).
func (it *Interp) Feed(r *Record) (*Msg, error) {
	defer func() { it.nrec++ }()
	if r.IsDef {
		c := *r
		it.Defs[r.Local&0x0F] = &c
		return nil, nil
	}
	def := it.Defs[r.Local&0x0F]
	if def == nil {
		return nil, ErrUndefinedLocal
	}
	known := it.P.Known[def.Global]
	var m *Msg
	if known {
		inv := it.P.Invalid[def.Global]
		m = &Msg{Global: def.Global, F: append([]Val(nil), inv...), Seq: it.nrec}
	} else {
		it.UnknownMsgs[def.Global]++
	}
	if r.Compressed && it.HasRef {
		off := uint32(r.TimeOffset & 0x1F)
		it.Ref += (off - it.Ref&31) & 31
		if known {
			if pf := it.P.Field(def.Global, 253); pf != nil && pf.Kind == KTimeUTC {
				m.F[pf.Sindex] = TimeVal(it.Ref)
			}
		}
	}
	if len(r.Data) != len(def.Fields)+len(def.Dev) {
		return nil, fmt.Errorf("ref: plan error: data record has %d parts, definition %d", len(r.Data), len(def.Fields)+len(def.Dev))
	}
	for i, fd := range def.Fields {
		data := r.Data[i]
		var pf *PField
		if known {
			pf = it.P.Field(def.Global, fd.Num)
		}
		if pf == nil {
			if known {
				it.UnknownFields[Key(def.Global, fd.Num)]++
			}
			continue
		}
		v, set := it.fieldValue(pf, fd, data, def.Arch)
		if set {
			m.F[pf.Sindex] = v
		}
	}
	if known {
		it.Msgs = append(it.Msgs, *m)
		return &it.Msgs[len(it.Msgs)-1], nil
	}
	return nil, nil
}

// scalar returns the value the wire bytes denote for a definition base type:
// zero-extended for unsigned types, sign-extended for signed integers.
func scalar(data []byte, bt BaseType, arch byte) (u uint64, s int64) {
	u = Get(data, bt.Size, arch)
	s = int64(u)
	if bt.Signed && bt.Integer {
		s = SignExtend(u, bt.Size)
	}
	return
}

func nativeVal(pb BaseType, db BaseType, data []byte, arch byte) Val {
	u, s := scalar(data, db, arch)
	switch {
	case pb.Float && pb.Size == 4:
		return Val{K: 'f', N: u}
	case pb.Float:
		return Val{K: 'd', N: u}
	case pb.Signed:
		return I(s)
	default:
		return U(u)
	}
}

func (it *Interp) fieldValue(pf *PField, fd FieldDef, data []byte, arch byte) (Val, bool) {
	db, ok := BaseByCode(fd.Base)
	if !ok {
		return Val{}, false
	}
	pb := BaseTypes[pf.Base]
	switch pf.Kind {
	case KTimeUTC, KTimeLocal:
		u, _ := scalar(data, db, arch)
		sec := uint32(u)
		if db.Size >= 4 && sec == 0xFFFFFFFF {
			return Val{}, false
		}
		if pf.Kind == KTimeUTC {
			if pf.Num == 253 {
				it.Ref = sec
				it.HasRef = true
			}
			return TimeVal(sec), true
		}
		if it.HasRef && it.Ref >= 0x10000000 {
			v := TimeVal(it.Ref)
			v.Off = int64(sec) - int64(it.Ref)
			v.S = "FITLOCAL"
			return v, true
		}
		v := TimeVal(sec)
		v.S = "FITLOCAL"
		return v, true
	case KLat, KLng:
		_, s := scalar(data, db, arch)
		sc := int32(s)
		k := byte('l')
		inv := sc == 0x7FFFFFFF
		if pf.Kind == KLng {
			k = 'g'
		} else if s < -(1<<30) || s > (1<<30)-1 {
			inv = true
		}
		if inv {
			sc = 0x7FFFFFFF
		}
		return Val{K: k, N: uint64(int64(sc)), Inv: inv}, true
	}
	// Native.
	if !pf.Array {
		if pb.Code == 0x07 {
			n := 0
			for n < len(data) && data[n] != 0 {
				n++
			}
			if n == 0 {
				return Val{}, false
			}
			return Str(string(data[:n])), true
		}
		return nativeVal(pb, db, data, arch), true
	}
	// Arrays.
	if pb.Code == 0x07 {
		var out []Val
		j := 0
		for j < len(data) {
			k := j
			for k < len(data) && data[k] != 0 {
				k++
			}
			if k == j {
				break
			}
			out = append(out, Str(string(data[j:k])))
			j = k + 1
		}
		if out == nil {
			return Val{K: 'a', Nil: true}, true
		}
		return Val{K: 'a', A: out}, true
	}
	n := len(data) / db.Size
	out := make([]Val, n)
	for i := 0; i < n; i++ {
		out[i] = nativeVal(pb, db, data[i*db.Size:], arch)
	}
	return Val{K: 'a', A: out}, true
}
