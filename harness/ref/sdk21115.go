package ref

// SDK21115Extra lists the (message, field number, field name) triples of the compiled-in profile
// (declared SDK version 21.115) that the bundled SDK 21.40 workbook does not have. The newer
// workbook is not bundled, so this list is the independent source for them: it was written down at
// development time and reviewed by hand against the published FIT SDK 21.115 profile (message and
// field names as in Profile.xlsx). It is only consulted while the tree declares SDK 21.115.
var SDK21115Extra = []struct {
	Mesg uint16
	Num  byte
	Name string // snake_case profile name
}{
	{18, 38, "end_position_lat"},
	{18, 39, "end_position_long"},
	{18, 110, "sport_profile_name"},
	{18, 150, "min_temperature"},
	{19, 124, "min_temperature"},
	{26, 254, "message_index"},
	{27, 19, "secondary_target_type"},
	{27, 20, "secondary_target_value"},
	{27, 21, "secondary_custom_target_value_low"},
	{27, 22, "secondary_custom_target_value_high"},
	{30, 13, "bmi"},
	{142, 91, "enhanced_avg_altitude"},
	{142, 92, "enhanced_max_altitude"},
	{142, 93, "enhanced_min_altitude"},
	{150, 6, "enhanced_altitude"},
	{211, 253, "timestamp"},
	{211, 0, "resting_heart_rate"},
	{211, 1, "current_day_resting_heart_rate"},
	{375, 253, "timestamp"},
	{375, 0, "device_index"},
	{375, 1, "battery_voltage"},
	{375, 2, "battery_status"},
	{375, 3, "battery_identifier"},
}
