package ref

// Field kinds, as laid out in the library's packed type word (bits 6..8).
const (
	KNative    = 0
	KTimeUTC   = 1
	KTimeLocal = 2
	KLat       = 3
	KLng       = 4
)

// PField is one (message, field number) entry of the profile under test, in
// decoded form. It is filled from the hook's raw table; decoding the packed
// type word is done here, from its documented layout: bits 0-4 base type
// index, bit 5 array, bits 6-8 kind.
type PField struct {
	Mesg   uint16
	Num    byte
	Sindex int
	Kind   int
	Array  bool
	Base   int // base type index 0..16
	Length byte
	Raw    uint16
}

// UnpackType decodes the packed type word.
func UnpackType(bits uint16) (kind int, array bool, base int) {
	return int(bits >> 6 & 7), bits&0x20 != 0, int(bits & 0x1F)
}

// SlotSpec is one member of a file container: a single-valued or an ordered
// slot for messages of one type.
type SlotSpec struct {
	Name   string
	Global uint16
	Single bool
}

// Profile is the view of the compiled-in profile the model works with.
type Profile struct {
	Fields    map[uint32]*PField // key: mesg<<8 | num
	Known     map[uint16]bool
	NumFields map[uint16]int       // struct fields per known message
	Names     map[uint16]string    // Go type name per known message
	Invalid   map[uint16][]Val     // all-invalid message as observed from the constructor
	Files     map[byte][]SlotSpec  // file type -> container members, in declaration order
	FileNames map[byte]string      // file type -> container type name
	ByMesg    map[uint16][]*PField // fields per message ordered by Num
}

func Key(mesg uint16, num byte) uint32 { return uint32(mesg)<<8 | uint32(num) }

// Field looks up a profile field.
func (p *Profile) Field(mesg uint16, num byte) *PField {
	return p.Fields[Key(mesg, num)]
}

// Hosted reports whether file type ft has a slot for message g, including the
// three common slots every file has.
func (p *Profile) Hosted(ft byte, g uint16) bool {
	if g == 0 || g == 49 || g == 162 {
		return true
	}
	for _, s := range p.Files[ft] {
		if s.Global == g {
			return true
		}
	}
	return false
}
