package ref

import (
	"errors"
	"fmt"
)

// Parsed is the result of parsing one FIT file frame with the independent
// grammar parser.
type Parsed struct {
	HeaderSize byte
	Proto      byte
	ProfVer    uint16
	DataSize   uint32
	HeaderCRC  uint16 // stored value (0 if 12-byte header)
	FileCRC    uint16 // stored value
	FrameLen   int    // header + data + 2
	Records    []Record
	// DefOf[i] is the index in Records of the definition governing data
	// record i (−1 for definition records).
	DefOf []int
}

// ParseOptions selects how strict Parse is.
type ParseOptions struct {
	// Strict additionally demands: base type byte known, field size a
	// multiple of the base type size (strings: any), arch byte 0 or 1,
	// reserved bits clear.
	Strict bool
}

// Parse parses the FIT frame at the start of b. It verifies the header, both
// CRCs (with the bit-serial reference CRC) and the record grammar.
func Parse(b []byte, opt ParseOptions) (*Parsed, error) {
	if len(b) < 12 {
		return nil, errors.New("ref: short header")
	}
	p := &Parsed{}
	p.HeaderSize = b[0]
	if p.HeaderSize != 12 && p.HeaderSize != 14 {
		return nil, fmt.Errorf("ref: header size %d", p.HeaderSize)
	}
	hs := int(p.HeaderSize)
	if len(b) < hs {
		return nil, errors.New("ref: short header")
	}
	p.Proto = b[1]
	p.ProfVer = uint16(b[2]) | uint16(b[3])<<8
	p.DataSize = uint32(b[4]) | uint32(b[5])<<8 | uint32(b[6])<<16 | uint32(b[7])<<24
	if string(b[8:12]) != ".FIT" {
		return nil, errors.New("ref: data type is not .FIT")
	}
	if hs == 14 {
		p.HeaderCRC = uint16(b[12]) | uint16(b[13])<<8
		if p.HeaderCRC != 0 && p.HeaderCRC != CRC(b[:12]) {
			return nil, errors.New("ref: header CRC mismatch")
		}
	}
	end := hs + int(p.DataSize)
	if uint64(hs)+uint64(p.DataSize)+2 > uint64(len(b)) {
		return nil, errors.New("ref: data size exceeds input")
	}
	p.FrameLen = end + 2
	p.FileCRC = uint16(b[end]) | uint16(b[end+1])<<8
	if CRC(b[:end]) != p.FileCRC {
		return nil, errors.New("ref: file CRC mismatch")
	}

	var defs [16]int
	for i := range defs {
		defs[i] = -1
	}
	pos := hs
	need := func(n int) error {
		if pos+n > end {
			return fmt.Errorf("ref: record at %d runs past data size", pos)
		}
		return nil
	}
	for pos < end {
		h := b[pos]
		pos++
		switch {
		case h&0x80 != 0: // compressed timestamp data record
			r := Record{Compressed: true, Local: h >> 5 & 3, TimeOffset: h & 0x1F}
			di := defs[r.Local]
			if di < 0 {
				return nil, fmt.Errorf("ref: data record for undefined local type %d", r.Local)
			}
			if err := readData(b, &pos, end, &p.Records[di], &r); err != nil {
				return nil, err
			}
			p.Records = append(p.Records, r)
			p.DefOf = append(p.DefOf, di)
		case h&0x40 != 0: // definition
			r := Record{IsDef: true, Local: h & 0x0F, HasDev: h&0x20 != 0, HdrBits: h & 0x10}
			if opt.Strict && h&0x10 != 0 {
				return nil, fmt.Errorf("ref: reserved bit set in definition header %#x", h)
			}
			if err := need(5); err != nil {
				return nil, err
			}
			r.Reserved = b[pos]
			r.Arch = b[pos+1]
			if r.Arch > 1 {
				return nil, fmt.Errorf("ref: arch byte %d", r.Arch)
			}
			r.Global = uint16(Get(b[pos+2:], 2, r.Arch))
			n := int(b[pos+4])
			pos += 5
			if err := need(3 * n); err != nil {
				return nil, err
			}
			for i := 0; i < n; i++ {
				f := FieldDef{b[pos], b[pos+1], b[pos+2]}
				pos += 3
				if opt.Strict {
					bt, ok := BaseByCode(f.Base)
					if !ok {
						return nil, fmt.Errorf("ref: unknown base type %#x", f.Base)
					}
					if bt.Code != 0x07 && int(f.Size)%bt.Size != 0 {
						return nil, fmt.Errorf("ref: field size %d not a multiple of %s", f.Size, bt.Name)
					}
				}
				r.Fields = append(r.Fields, f)
			}
			if r.HasDev {
				if err := need(1); err != nil {
					return nil, err
				}
				n := int(b[pos])
				pos++
				if err := need(3 * n); err != nil {
					return nil, err
				}
				for i := 0; i < n; i++ {
					r.Dev = append(r.Dev, DevDef{b[pos], b[pos+1], b[pos+2]})
					pos += 3
				}
			}
			p.Records = append(p.Records, r)
			p.DefOf = append(p.DefOf, -1)
			defs[r.Local] = len(p.Records) - 1
		default: // normal data record
			if opt.Strict && h&0x30 != 0 {
				return nil, fmt.Errorf("ref: reserved bits set in data header %#x", h)
			}
			r := Record{Local: h & 0x0F, HdrBits: h & 0x30}
			di := defs[r.Local]
			if di < 0 {
				return nil, fmt.Errorf("ref: data record for undefined local type %d", r.Local)
			}
			if err := readData(b, &pos, end, &p.Records[di], &r); err != nil {
				return nil, err
			}
			p.Records = append(p.Records, r)
			p.DefOf = append(p.DefOf, di)
		}
	}
	return p, nil
}

func readData(b []byte, pos *int, end int, def *Record, r *Record) error {
	for _, f := range def.Fields {
		if *pos+int(f.Size) > end {
			return fmt.Errorf("ref: data record at %d runs past data size", *pos)
		}
		r.Data = append(r.Data, b[*pos:*pos+int(f.Size)])
		*pos += int(f.Size)
	}
	for _, d := range def.Dev {
		if *pos+int(d.Size) > end {
			return fmt.Errorf("ref: data record at %d runs past data size", *pos)
		}
		r.Data = append(r.Data, b[*pos:*pos+int(d.Size)])
		*pos += int(d.Size)
	}
	return nil
}
