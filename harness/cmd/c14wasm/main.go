// c14wasm is the C14 monitor in a form that can be built for platforms the harness
// itself does not run on (GOOS=js GOARCH=wasm, executed by node): checksum, split writes,
// residue and Reset of the package under test against the bit-serial reference. It prints one
// line: "OK <n>" or "BAD <what>".
package main

import (
	"fmt"
	"os"

	"github.com/tormoder/fit/dyncrc16"

	"verifharness/ref"
)

type rnd uint64

func (r *rnd) next() uint64 {
	*r += 0x9E3779B97F4A7C15
	z := uint64(*r)
	z = (z ^ z>>30) * 0xBF58476D1CE4E5B9
	z = (z ^ z>>27) * 0x94D049BB133111EB
	return z ^ z>>31
}

func main() {
	r := rnd(12345)
	n := 0
	bad := func(format string, args ...interface{}) {
		fmt.Printf("BAD "+format+"\n", args...)
		os.Exit(1)
	}
	lengths := []int{0, 1, 2, 3, 4, 5, 7, 8, 9, 15, 16, 17, 31, 32, 33, 63, 64, 65, 255, 256, 257, 1000, 4095, 4096, 4097, 32767, 65536, 70001, 300000}
	for k := 0; k < 400; k++ {
		ln := lengths[k%len(lengths)]
		if k >= 2*len(lengths) {
			ln = int(r.next() % 3000)
		}
		d := make([]byte, ln)
		for i := range d {
			d[i] = byte(r.next())
		}
		want := ref.CRC(d)
		if got := dyncrc16.Checksum(d); got != want {
			bad("Checksum of %d bytes = %#04x, CRC-16/ARC gives %#04x", ln, got, want)
		}
		h := dyncrc16.New()
		for pos := 0; pos < ln; {
			step := 1 + int(r.next()%97)
			if pos+step > ln {
				step = ln - pos
			}
			h.Write(d[pos : pos+step])
			pos += step
		}
		if got := h.Sum16(); got != want {
			bad("%d bytes in split writes = %#04x, single write gives %#04x", ln, got, want)
		}
		h.Write([]byte{byte(want), byte(want >> 8)})
		if got := h.Sum16(); got != 0 {
			bad("residue after %d bytes and their little-endian sum = %#04x, want 0", ln, got)
		}
		h.Reset()
		if h.Sum16() != 0 {
			bad("Reset leaves %#04x", h.Sum16())
		}
		n++
	}
	// every register state, a few continuation bytes
	for s := 0; s < 65536; s += 1 {
		lo, hi := ref.CRCPreimage(uint16(s))
		h := dyncrc16.New()
		h.Write([]byte{lo, hi})
		if h.Sum16() != uint16(s) {
			bad("state %#04x not reached by its two-byte preimage: %#04x", s, h.Sum16())
		}
		tail := []byte{byte(s), byte(s >> 8), byte(s * 7), 0, 0xFF}
		h.Write(tail)
		want := uint16(s)
		for _, b := range tail {
			want = ref.CRCUpdate(want, b)
		}
		if h.Sum16() != want {
			bad("state %#04x followed by % x = %#04x, reference %#04x", s, tail, h.Sum16(), want)
		}
		n++
	}
	fmt.Printf("OK %d\n", n)
}
