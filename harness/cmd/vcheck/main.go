// vcheck runs one property check of the tormoder/fit verification harness.
//
//	vcheck <Cxx> [--tier quick|thorough]
//	vcheck <Cxx> --replay <file>
//	vcheck worker <Cxx> --tier t --shard i --nshard n --out file
//	vcheck selftest
//	vcheck list
package main

import (
	"flag"
	"fmt"
	"os"

	"verifharness/checks"
	"verifharness/lib"
)

func main() {
	if len(os.Args) < 2 {
		fmt.Fprintln(os.Stderr, "usage: vcheck <Cxx>|selftest|list|worker ...")
		os.Exit(2)
	}
	checks.RegisterAll()
	switch os.Args[1] {
	case "list":
		for _, id := range lib.Checks() {
			fmt.Println(id)
		}
	case "selftest":
		os.Exit(checks.SelfTest())
	case "c08":
		os.Exit(checks.C08Sub(os.Args[2:]))
	case "c20":
		os.Exit(checks.C20Sub(os.Args[2:]))
	case "c09":
		os.Exit(checks.C09Sub(os.Args[2:]))
	case "c14":
		os.Exit(checks.C14Sub(os.Args[2:]))
	case "worker":
		fs := flag.NewFlagSet("worker", flag.ExitOnError)
		tier := fs.String("tier", "quick", "")
		shard := fs.Int("shard", 0, "")
		nshard := fs.Int("nshard", 1, "")
		out := fs.String("out", "", "")
		fams := fs.String("families", "", "")
		fs.String("label", "", "")
		id := os.Args[2]
		fs.Parse(os.Args[3:])
		os.Exit(lib.RunWorker(id, *tier, *shard, *nshard, *out, *fams))
	default:
		id := os.Args[1]
		fs := flag.NewFlagSet("check", flag.ExitOnError)
		tier := fs.String("tier", envOr("VERIF_TIER", "quick"), "")
		replay := fs.String("replay", "", "")
		fs.Parse(os.Args[2:])
		if *replay != "" {
			os.Exit(lib.RunReplay(id, *replay))
		}
		if rc := checks.SelfTestQuiet(); rc != 0 {
			fmt.Printf("INCONCLUSIVE property=%s the reference model failed its self-test; nothing decided\n", id)
			os.Exit(2)
		}
		os.Exit(lib.RunCheck(id, *tier))
	}
}

func envOr(k, d string) string {
	if v := os.Getenv(k); v != "" {
		return v
	}
	return d
}
