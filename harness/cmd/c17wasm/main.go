// c17wasm is the C17 monitor in a form that can be built for platforms the harness itself
// does not run on (GOOS=js GOARCH=wasm, executed by node): coordinates (validity, Semicircles,
// Degrees, construction from degrees, printed form) on a stride over all 2^32 semicircle values
// plus the boundary values, and the time conversion on a stride over all second counts. Code
// whose result the language leaves to the implementation (conversions of out-of-range floats,
// shifts, int width) shows on a platform that answers differently. It prints one line:
// "OK <n>" or "BAD <what>".
package main

import (
	"fmt"
	"math"
	"os"
	"strconv"
	"time"

	"github.com/tormoder/fit"
)

const semiToDeg = 180.0 / 2147483648.0

func main() {
	n := 0
	bad := func(format string, args ...interface{}) {
		fmt.Printf("BAD "+format+"\n", args...)
		os.Exit(1)
	}
	printed := func(kind string, s int32, str string, inv bool, d float64) {
		if inv {
			if str != "Invalid" {
				bad("%s %d: String() = %q, want \"Invalid\"", kind, s, str)
			}
			return
		}
		v, err := strconv.ParseFloat(str, 64)
		if err != nil || math.Abs(v-d) > 2e-5 {
			bad("%s %d: String() = %q, Degrees() = %v: not within 2e-5", kind, s, str, d)
		}
	}
	one := func(s int32) {
		n++
		latInv := s == math.MaxInt32 || s < -(1<<30) || s > (1<<30)-1
		la := fit.NewLatitude(s)
		if la.Invalid() != latInv {
			bad("NewLatitude(%d).Invalid() = %v, want %v", s, la.Invalid(), latInv)
		}
		wantS := s
		if latInv {
			wantS = math.MaxInt32
		}
		if la.Semicircles() != wantS {
			bad("NewLatitude(%d).Semicircles() = %d, want %d", s, la.Semicircles(), wantS)
		}
		deg := la.Degrees()
		if latInv != math.IsNaN(deg) {
			bad("latitude %d: Degrees() = %v, invalid = %v", s, deg, latInv)
		}
		if !latInv {
			if want := float64(s) * semiToDeg; deg != want {
				bad("NewLatitude(%d).Degrees() = %v, want %v", s, deg, want)
			}
			if deg > -90 && deg < 90 {
				b := fit.NewLatitudeDegrees(deg)
				if d := int64(b.Semicircles()) - int64(s); b.Invalid() || d < -1 || d > 1 {
					bad("NewLatitudeDegrees(%v) (from %d semicircles) = %d semicircles, invalid=%v", deg, s, b.Semicircles(), b.Invalid())
				}
			}
		}
		printed("latitude", s, la.String(), latInv, deg)
		lngInv := s == math.MaxInt32
		lo := fit.NewLongitude(s)
		if lo.Invalid() != lngInv || lo.Semicircles() != s {
			bad("NewLongitude(%d): Invalid() = %v, Semicircles() = %d", s, lo.Invalid(), lo.Semicircles())
		}
		ldeg := lo.Degrees()
		if lngInv != math.IsNaN(ldeg) {
			bad("longitude %d: Degrees() = %v, invalid = %v", s, ldeg, lngInv)
		}
		if !lngInv {
			if want := float64(s) * semiToDeg; ldeg != want {
				bad("NewLongitude(%d).Degrees() = %v, want %v", s, ldeg, want)
			}
			if ldeg > -180 && ldeg < 180 {
				b := fit.NewLongitudeDegrees(ldeg)
				if d := int64(b.Semicircles()) - int64(s); b.Invalid() || d < -1 || d > 1 {
					bad("NewLongitudeDegrees(%v) (from %d semicircles) = %d semicircles, invalid=%v", ldeg, s, b.Semicircles(), b.Invalid())
				}
			}
		}
		printed("longitude", s, lo.String(), lngInv, ldeg)
	}
	for _, b := range []int64{math.MinInt32, -(1 << 30), 0, 1 << 30, math.MaxInt32} {
		for d := int64(-3); d <= 3; d++ {
			if v := b + d; v >= math.MinInt32 && v <= math.MaxInt32 {
				one(int32(v))
			}
		}
	}
	for u := uint64(0); u < 1<<32; u += 4099 {
		one(int32(uint32(u)))
	}
	// time: stride over all second counts plus the ends
	const fitEpoch = 631065600
	tm := func(u uint32) {
		n++
		t := fit.VerifDecodeDateTime(u)
		if t.Unix() != fitEpoch+int64(u) || t.Nanosecond() != 0 || t.Location() != time.UTC {
			bad("decode of %d seconds: %v", u, t)
		}
		if back := fit.VerifEncodeTime(t); back != u {
			bad("encode(decode(%d)) = %d", u, back)
		}
		if fit.IsBaseTime(t) != (u == 0) {
			bad("IsBaseTime(decode(%d)) = %v", u, fit.IsBaseTime(t))
		}
	}
	for _, u := range []uint32{0, 1, 2, 0x0FFFFFFF, 0x10000000, 0x7FFFFFFF, 0x80000000, 0x80000001, 0xFFFFFFFE, 0xFFFFFFFF} {
		tm(u)
	}
	for u := uint64(0); u < 1<<32; u += 8209 {
		tm(uint32(u))
	}
	fmt.Printf("OK %d\n", n)
}
